"""Keep a confirmed seeded change under /verif/seeded/<id>/ with its meta.json.
usage: python3-vt tools/keep_seed.py <seed_dir> <seed_id> <property> <checks comma sep> "<needs text>" """
import json
import os
import shutil
import subprocess
import sys

VERIF = os.path.dirname(os.path.dirname(os.path.abspath(__file__)))


def main():
    d, sid, prop, checks, needs = sys.argv[1:6]
    dst = os.path.join(VERIF, "seeded", sid)
    os.makedirs(dst, exist_ok=True)
    for f in ("patch.diff", "demo.rs"):
        shutil.copy(os.path.join(d, f), os.path.join(dst, f))
    for f in ("notes.txt",):
        if os.path.exists(os.path.join(d, f)):
            shutil.copy(os.path.join(d, f), os.path.join(dst, "author_notes.txt"))
    confirm = ""
    cl = os.path.join(d, "confirm.verdict")
    if os.path.exists(cl):
        confirm = open(cl).read().strip()
    ev = subprocess.run(["python3-vt", os.path.join(VERIF, "tools", "eval_seed.py"), d] + checks.split(","), capture_output=True, text=True)
    txt = ev.stdout[ev.stdout.index("{"):ev.stdout.rindex("}") + 1] if "{" in ev.stdout else "{}"
    res = json.loads(txt)
    meta = {
        "id": sid,
        "breaks_property": prop,
        "needs_to_manifest": needs,
        "origin": "fresh sub-agent given only the property text and its own scratch worktree (nothing from /verif)",
        "confirmed_by_me": {
            "how": "tools/confirm_seed.sh in a scratch worktree: demo passes on HEAD, patch applies and compiles, "
                   "demo fails with the patch, existing suite (cargo test --workspace --lib --tests --offline) passes with the patch",
            "verdict": confirm,
        },
        "checks_run": {"how": "git -C /repo apply patch.diff; ./check <id>; git -C /repo apply -R patch.diff", "results": res},
        "detected": any(v.get("exit") == 1 for v in res.values()),
    }
    with open(os.path.join(dst, "meta.json"), "w") as fh:
        json.dump(meta, fh, indent=1)
    print(sid, "detected" if meta["detected"] else "MISSED", {k: v.get("rules") for k, v in res.items()})


if __name__ == "__main__":
    main()
