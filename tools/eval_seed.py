"""Run the checks against a seeded change: apply the patch to /repo, run the given checks, undo at once.
usage: python3-vt tools/eval_seed.py <seed_dir> <Cxx> [Cyy ...]"""
import json
import os
import re
import subprocess
import sys

VERIF = os.path.dirname(os.path.dirname(os.path.abspath(__file__)))


def main():
    d = os.path.abspath(sys.argv[1])
    props = sys.argv[2:]
    import fcntl
    os.makedirs(os.path.join(VERIF, ".cache"), exist_ok=True)
    lk = open(os.path.join(VERIF, ".cache", "repo.lock"), "w")
    fcntl.flock(lk, fcntl.LOCK_EX)   # keeps scratch copies (mutation runs) from seeing the patched tree
    st = subprocess.run(["git", "-C", "/repo", "status", "--porcelain"], capture_output=True, text=True).stdout.strip()
    if st:
        print("refusing: /repo working tree is not clean:\n" + st)
        return 2
    r = subprocess.run(["git", "-C", "/repo", "apply", os.path.join(d, "patch.diff")], capture_output=True, text=True)
    if r.returncode != 0:
        print("patch does not apply: " + r.stderr)
        return 2
    out = {}
    try:
        for p in props:
            env = dict(os.environ, VERIF_EVIDENCE_DIR="/tmp/seed_eval_evidence")
            c = subprocess.run([os.path.join(VERIF, "check"), p], capture_output=True, text=True, env=env)
            rules = sorted(set(re.findall(r"^  rule (\S+) @ ([^:]+(?::[^:]+)?)", c.stdout, re.M)))
            out[p] = {"exit": c.returncode, "rules": sorted(set(x[0] for x in rules)),
                      "first": [l for l in c.stdout.splitlines() if l.startswith("  rule ")][:3]}
    finally:
        subprocess.run(["git", "-C", "/repo", "apply", "-R", os.path.join(d, "patch.diff")], check=False)
        subprocess.run(["git", "-C", "/repo", "checkout", "--", "."], check=False)
    st = subprocess.run(["git", "-C", "/repo", "status", "--porcelain"], capture_output=True, text=True).stdout.strip()
    print(json.dumps(out, indent=1))
    if st:
        print("WARNING: /repo not clean after undo:\n" + st)
    return 0


if __name__ == "__main__":
    sys.exit(main())
