"""Regenerate MANIFEST.json from the rule packs present in rules/ (python3-vt tools/gen_manifest.py)."""
import importlib
import json
import os
import sys

VERIF = os.path.dirname(os.path.dirname(os.path.abspath(__file__)))
sys.path.insert(0, VERIF)

ALL = ["C%02d" % i for i in range(1, 21)]
NA_REASONS = {}
PENDING = "rule pack not implemented yet in this revision (see DESIGN.md section 10); no claim is made"

checks = []
na = []
for p in ALL:
    path = os.path.join(VERIF, "rules", p + ".py")
    if p in NA_REASONS or not os.path.exists(path):
        na.append({"property_id": p, "reason": NA_REASONS.get(p, PENDING)})
        continue
    pack = importlib.import_module("rules." + p)
    checks.append({
        "property_id": p,
        "quick_cmd": "./check %s --tier quick" % p,
        "thorough_cmd": "./check %s --tier thorough" % p,
        "evidence_file": "evidence/%s.json" % p,
        "replay_cmd_template": "./check %s --replay {path}" % p,
        "engine": "mir-rules",
        "level_claimed": {
            "category": "other",
            "text": "Static analysis: repository-specific rule instances decided on the compiler's MIR of /repo's "
                    "current tree (all paths of the anchored functions, not sampled inputs). " + pack.EXPLANATION,
            "design_ref": "DESIGN.md section 4, " + p,
        },
        "level_note": "Decides the structural clauses listed in the evidence (rules R1..Rn); the step from those "
                      "clauses to the behavioural statement over all histories is an informal induction "
                      "(DESIGN.md section 3/4, App. D). Trusted: rustc MIR construction, the fact exporter, "
                      "catalogued std/indexmap/futures adapter semantics. Not decided: "
                      + "; ".join(getattr(pack, "NOT_DECIDED", [])),
        "technique": getattr(pack, "TECHNIQUE", "custom MIR dataflow/control-dependence rules (rustc_private driver)"),
    })

N_SEEDED = len([d for d in os.listdir(os.path.join(VERIF, "seeded")) if os.path.exists(os.path.join(VERIF, "seeded", d, "patch.diff"))])
N_NEUTRAL = len([d for d in os.listdir(os.path.join(VERIF, "neutral")) if os.path.exists(os.path.join(VERIF, "neutral", d, "patch.diff"))])
manifest = {
    "version": 1,
    "setup_cmd": "./setup.sh",
    "hooks": {
        "guard": "barter_rs_barter_rs_verif",
        "enable": "none needed: the analysis reads the compiler's MIR of the unmodified sources "
                  "(cargo +nightly check with RUSTC_WORKSPACE_WRAPPER=driver); no instrumentation is compiled in",
        "baseline_off_cmd": "cd /repo && cargo test --workspace --no-fail-fast --offline",
        "source_commits": [],
        "add_only": True,
    },
    "engines": [{
        "name": "mir-rules",
        "path": "driver/ sa/ rules/",
        "serves_properties": [c["property_id"] for c in checks],
        "kind_free_text": "rustc_private fact extractor (MIR of every workspace body) + Python rule packs: control "
                          "dependence guards, provenance terms, dominance/path rules, who-may tables, finite "
                          "decision tables, sibling cross-checks; rules read each function through an "
                          "idiom-independent view (sa/inline.py: MIR inlining of std combinator models written in "
                          "Rust, closure calls and un-named private helpers; guard lifting; case tables; iterator "
                          "pipeline normal form)",
    }],
    "checks": checks,
    "not_applicable": na,
    "notes": "Static analysis only. `./check Cxx` re-extracts MIR facts from /repo's working tree when any source "
             "changed (about 15-40 s, shared by all properties through .cache/), then runs the pack (2-5 s). "
             "Exit 2 = checker/infrastructure error (e.g. /repo does not compile), never a verdict. Regression corpora "
             "kept under /verif: seeded/ (%d confirmed property-breaking changes written by sub-agents that saw only the "
             "property text, four rounds - the last two disguised as refactorings / placed in supporting code; each must be reported by its own "
             "property's check), neutral/ (%d behaviour-preserving refactorings; every check must stay silent), mutations/ (catalogue incl. "
             "neutral edits); run with tools/run_corpus.py and mutations/run.py on scratch copies." % (N_SEEDED, N_NEUTRAL),
}
with open(os.path.join(VERIF, "MANIFEST.json"), "w") as fh:
    json.dump(manifest, fh, indent=1)
print("claimed:", [c["property_id"] for c in checks])
print("not_applicable:", [n["property_id"] for n in na])
