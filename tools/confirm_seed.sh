#!/bin/bash
# Confirm a seeded change independently, in a scratch worktree (never in /repo):
#   demo passes without the patch, patch applies and compiles, existing suite still passes, demo fails with it.
# usage: tools/confirm_seed.sh <seed_dir containing patch.diff demo.rs>   -> writes <seed_dir>/confirm.log, prints verdict
set -u
D=$(cd "$1" && pwd)
WT=/tmp/confirm_wt
export CARGO_TARGET_DIR=/tmp/confirm_target
export CARGO_NET_OFFLINE=true
export CARGO_INCREMENTAL=0
export CARGO_PROFILE_DEV_DEBUG=0
export CARGO_PROFILE_TEST_DEBUG=0
LOG=$D/confirm.log
: > "$LOG"
git -C /repo worktree remove --force $WT >/dev/null 2>&1
git -C /repo worktree add --detach $WT HEAD >>"$LOG" 2>&1 || { echo "VERDICT worktree-failed"; exit 2; }
place=$(head -3 "$D/demo.rs" | grep -o 'PLACE AT: *[^ ]*' | sed 's/PLACE AT: *//')
mode=$(head -3 "$D/demo.rs" | grep -o 'MODE: *[a-z-]*' | sed 's/MODE: *//')
[ -z "$place" ] && { echo "VERDICT no-place-header"; exit 2; }
pkg=$(echo "$place" | cut -d/ -f1)
if [ "$mode" = "append" ]; then cat "$D/demo.rs" >> "$WT/$place"; else mkdir -p "$(dirname "$WT/$place")"; cp "$D/demo.rs" "$WT/$place"; fi
tname=$(basename "$place" .rs)
if [ "$mode" = "append" ]; then demo_cmd="cargo test -p $pkg --lib --offline"; else demo_cmd="cargo test -p $pkg --test $tname --offline"; fi
echo "== demo WITHOUT patch: $demo_cmd" >>"$LOG"
(cd $WT && $demo_cmd) >>"$LOG" 2>&1; rc_before=$?
echo "== apply patch" >>"$LOG"
(cd $WT && git apply "$D/patch.diff") >>"$LOG" 2>&1; rc_apply=$?
echo "== demo WITH patch" >>"$LOG"
(cd $WT && $demo_cmd) >>"$LOG" 2>&1; rc_after=$?
echo "== existing suite WITH patch (demo removed)" >>"$LOG"
if [ "$mode" = "append" ]; then (cd $WT && git checkout -- "$place" && git apply "$D/patch.diff") >>"$LOG" 2>&1; else rm -f "$WT/$place"; fi
(cd $WT && cargo test --workspace --lib --tests --offline -- --skip test_historical_clock_time_delta_calculation) >>"$LOG" 2>&1; rc_suite=$?
git -C /repo worktree remove --force $WT >/dev/null 2>&1
v="before=$rc_before apply=$rc_apply after=$rc_after suite=$rc_suite"
if [ $rc_before -eq 0 ] && [ $rc_apply -eq 0 ] && [ $rc_after -ne 0 ] && [ $rc_suite -eq 0 ]; then echo "VERDICT confirmed $v" | tee "$D/confirm.verdict"; else echo "VERDICT rejected $v" | tee "$D/confirm.verdict"; fi
