"""Blind-spot report: workspace functions that the functions a pack analyses CALL (transitively, depth-bounded) but that
no rule of the pack ever reads.  Not a check - a worklist for extending packs.
usage: python3-vt tools/coverage_gap.py [prop ...] [--depth N]"""
import json
import os
import sys

sys.path.insert(0, os.path.dirname(os.path.dirname(os.path.abspath(__file__))))
from sa import facts as F  # noqa
from rules import common  # noqa


def callees(rec):
    out = set()
    for blk in rec["blocks"]:
        t = blk.get("term")
        if t and t.get("t") == "call" and "def" in t.get("f", {}):
            out.add(t["f"].get("res") or t["f"]["def"])
            out.add(t["f"]["def"])
    return out


def main():
    args = [a for a in sys.argv[1:] if a.startswith("C")]
    depth = 2
    if "--depth" in sys.argv:
        depth = int(sys.argv[sys.argv.index("--depth") + 1])
    f = F.get_facts()
    props = args or ["C%02d" % i for i in range(1, 21)]
    for p in props:
        ev = json.load(open(os.path.join(os.path.dirname(__file__), "..", "evidence", p + ".json")))
        seen = set(ev["coverage"]["functions_analysed"])
        frontier, gap = set(seen), {}
        for d in range(depth):
            nxt = set()
            for fn in frontier:
                rec = f.bodies.get(fn)
                if not rec:
                    continue
                for c in callees(rec):
                    r = f.bodies.get(c)
                    if r is None or r.get("test") or c in seen or c in gap:
                        continue
                    if common.is_derived(f, c) or "{closure" in c:
                        nxt.add(c)
                        continue
                    gap[c] = (d + 1, fn)
                    nxt.add(c)
            frontier = nxt
        print("== %s: %d analysed, %d unexamined workspace callees within depth %d" % (p, len(seen), len(gap), depth))
        for c, (d, via) in sorted(gap.items(), key=lambda kv: (kv[1][0], kv[0])):
            print("   d%d %s   <- %s" % (d, c[-110:], via[-60:]))


if __name__ == "__main__":
    main()
