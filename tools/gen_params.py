"""Freeze the parameter names of every library function of the CURRENT tree into rules/tables/params.json.
Rules are written in the vocabulary of the tree they were confirmed on (`snapshot.0.key.cid`); a parameter's name has
no meaning, its position has.  sa/mir.py renders the i-th parameter of a function listed here under its frozen name, so
that renaming a parameter is invisible to the rules while swapping two parameters is not.
Run once on the confirmed tree:  python3-vt tools/gen_params.py"""
import json
import os
import sys

sys.path.insert(0, os.path.dirname(os.path.dirname(os.path.abspath(__file__))))
from sa import facts  # noqa


def main():
    f = facts.get_facts()
    out = {}
    for d, r in sorted(f.bodies.items()):
        if r.get("test") or r.get("kind") not in ("fn", "assoc_fn") or not r.get("argc"):
            continue
        names = [r["locals"][i]["name"] for i in range(1, r["argc"] + 1)]
        if all(n is not None for n in names):
            out[d] = names
    p = os.path.join(os.path.dirname(os.path.dirname(os.path.abspath(__file__))), "rules", "tables", "params.json")
    with open(p, "w") as fh:
        json.dump(out, fh, indent=0, sort_keys=True)
    print(len(out), "functions ->", p)


if __name__ == "__main__":
    main()
