"""Regression over the two corpora kept under /verif:
   neutral/<id>/patch.diff  - behaviour-preserving refactorings: EVERY pack must stay silent;
   seeded/<id>/patch.diff   - property-breaking changes: the property's OWN pack must report a violation.
Each worker owns a scratch copy of /repo's current tree (outside /repo and /verif) and its own cargo target directory;
a patch is applied to the scratch copy, the packs are run against it (VERIF_REPO), the patch is reverted.  /repo itself is
never touched.  Scratch copies and target directories are removed at the end.
usage: python3-vt tools/run_corpus.py neutral|seeded [-j N] [id ...]      (writes .cache/corpus_<kind>.json)"""
import json
import os
import queue
import re
import shutil
import subprocess
import sys
import threading
from concurrent.futures import ThreadPoolExecutor

VERIF = os.path.dirname(os.path.dirname(os.path.abspath(__file__)))
ALL = ["C%02d" % i for i in range(1, 21)]
SCRATCH = "/tmp/verif_corpus"


def run_checks(props, env):
    def one(p):
        c = subprocess.run([os.path.join(VERIF, "check"), p], capture_output=True, text=True, env=env)
        rules = sorted(set(re.findall(r"^  rule (\S+) @", c.stdout, re.M)))
        first = [l.strip()[:200] for l in c.stdout.splitlines() if l.startswith("  rule ")][:2]
        if c.returncode != 0 and not rules:      # not a rule verdict: keep the tail of the output for diagnosis
            first = [l[:300] for l in (c.stdout + c.stderr).splitlines() if not l.startswith("WARNING")][-6:]
        return p, c.returncode, rules, first
    first = one(props[0])          # primes the facts cache for this tree
    if first[1] == 2 or (first[1] != 0 and not first[2]):   # infrastructure hiccup (checker error, never a verdict): one retry
        first = one(props[0])
    with ThreadPoolExecutor(max_workers=3) as ex:
        rest = list(ex.map(one, props[1:]))
    return [first] + rest


def worker(w, kind, q, res, lock):
    repo = os.path.join(SCRATCH, "w%d" % w, "repo")
    target = os.path.join(SCRATCH, "w%d" % w, "target")
    shutil.rmtree(os.path.join(SCRATCH, "w%d" % w), ignore_errors=True)
    os.makedirs(repo)
    subprocess.check_call(["rsync", "-a", "--exclude", "target", "--exclude", ".git", "/repo/", repo + "/"])
    env = dict(os.environ, VERIF_REPO=repo, VERIF_TARGET_DIR=target, VERIF_EVIDENCE_DIR=os.path.join(SCRATCH, "w%d" % w, "evidence"),
               VERIF_NO_SELFTEST="1", VERIF_TIER="quick")
    while True:
        try:
            i = q.get_nowait()
        except queue.Empty:
            break
        patch = os.path.join(VERIF, kind, i, "patch.diff")
        a = subprocess.run(["patch", "-p1", "-s", "-i", patch], cwd=repo, capture_output=True, text=True)
        if a.returncode != 0:
            with lock:
                res[i] = {"verdict": "patch-does-not-apply", "alarms": [], "rules": []}
            subprocess.run(["patch", "-p1", "-s", "-R", "-i", patch], cwd=repo, capture_output=True)
            continue
        try:
            props = ALL if kind == "neutral" else [json.load(open(os.path.join(VERIF, kind, i, "meta.json")))["breaks_property"]]
            out = run_checks(props, env)
        finally:
            subprocess.run(["patch", "-p1", "-s", "-R", "-i", patch], cwd=repo, capture_output=True)
            for junk in subprocess.run(["find", repo, "-name", "*.orig", "-o", "-name", "*.rej"], capture_output=True, text=True).stdout.split():
                os.remove(junk)
        alarms = [(p, rc, rules, first) for p, rc, rules, first in out if rc != 0]
        errors = [p for p, rc, rules, first in out if rc not in (0, 1)]
        with lock:
            if kind == "neutral":
                res[i] = {"verdict": "CHECKER-ERROR" if errors else ("SILENT" if not alarms else "FALSE-ALARM"), "alarms": alarms}
            else:
                res[i] = {"verdict": "DETECTED" if any(rc == 1 for p, rc, r, f in out) else "MISSED", "rules": [(p, r) for p, rc, r, f in out]}
            print(i, res[i]["verdict"], [(a[0], a[2] or a[3]) for a in alarms][:3] if kind == "neutral" else res[i]["rules"], flush=True)
            with open(os.path.join(VERIF, ".cache", "corpus_%s.json" % kind), "w") as fh:
                json.dump(res, fh, indent=1, sort_keys=True)


def main():
    args = sys.argv[1:]
    kind = args.pop(0)
    jobs = 5
    if "-j" in args:
        k = args.index("-j")
        jobs = int(args[k + 1])
        del args[k:k + 2]
    ids = args or sorted(os.listdir(os.path.join(VERIF, kind)))
    ids = [i for i in ids if os.path.exists(os.path.join(VERIF, kind, i, "patch.diff"))]
    q = queue.Queue()
    for i in ids:
        q.put(i)
    res, lock = {}, threading.Lock()
    ths = [threading.Thread(target=worker, args=(w, kind, q, res, lock)) for w in range(min(jobs, len(ids)))]
    try:
        for t in ths:
            t.start()
        for t in ths:
            t.join()
    finally:
        shutil.rmtree(SCRATCH, ignore_errors=True)
    bad = sorted(i for i, v in res.items() if v["verdict"] not in ("SILENT", "DETECTED"))
    print("%s: %d run, %d not as expected: %s" % (kind, len(res), len(bad), bad))
    return 0 if not bad else 1


if __name__ == "__main__":
    sys.exit(main())
