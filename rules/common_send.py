"""Shared pack for C03 / C19: send => record-in-flight discipline."""
from sa import atoms, mir, whomay
from sa.mir import render, render_guard
from rules import common, common_idx

ENG = "barter::engine::Engine"
SR = "barter::engine::action::send_requests::SendRequests"
IFR = "barter::engine::state::order::in_flight_recorder::InFlightRequestRecorder"


def send_sites(ctx):
    """all library call sites of SendRequests::send_requests with the request kind"""
    target = ctx.find(name="send_requests", self_adt=ENG, trait=SR)
    out = []
    for d, bi, sp in common.lib_callers(ctx.facts, target):
        b = ctx.ibody(d)
        t = b.blocks[bi]["term"]
        kinds = [a for a in t["f"]["args"] if "RequestCancel" in a or "RequestOpen" in a]
        kind = "cancels" if any("RequestCancel" in a for a in kinds) else ("opens" if kinds else "?")
        out.append({"def": d, "bi": bi, "sp": sp, "kind": kind, "term": b.call_term(t, bi), "body": b, "t": t})
    return target, out


def record_sites(ctx):
    out = []
    for d in common_idx.lib_bodies(ctx):
        rec = ctx.facts.bodies[d]
        hit = any(blk["term"] and blk["term"]["t"] == "call" and "def" in blk["term"]["f"] and
                  blk["term"]["f"]["def"].endswith(("::record_in_flight_cancels", "::record_in_flight_opens"))
                  for blk in rec["blocks"])
        if not hit:
            continue
        b = ctx.ibody(d)
        for bi, t, tm in b.real_calls():
            if t["f"]["def"].endswith(("::record_in_flight_cancels", "::record_in_flight_opens")):
                out.append({"def": d, "bi": bi, "sp": t["sp"], "kind": t["f"]["def"].rsplit("_", 1)[-1], "term": tm, "body": b})
    return out


def _sent_of(term):
    """if term is [NoneOneOrMany::iter](X.sent) return X else None"""
    t = term
    if t[0] == "call" and t[1].endswith(("NoneOneOrMany::<T>::iter", "::iter", "::into_iter")) and len(t[2]) == 1:
        t = t[2][0]
    if t[0] == "proj" and t[2] == ("sent",):
        return t[1]
    return None


def r3_sent_only(ctx, floor_sends=7, floor_records=7, only_fns=None):
    target, sends = send_sites(ctx)
    recs = record_sites(ctx)
    if only_fns:
        sends = [s for s in sends if mir.short(whomay.owner_fn(s["def"])) in only_fns]
        recs = [r for r in recs if mir.short(whomay.owner_fn(r["def"])) in only_fns]
    for s in sends:
        owner = mir.short(whomay.owner_fn(s["def"]))
        b = s["body"]
        mine = [r for r in recs if r["def"] == s["def"] and _sent_of(r["term"][2][1]) == s["term"]]
        ok = len(mine) == 1 and mine[0]["kind"] == s["kind"]
        ctx.check("%s:send_requests<%s>@bb%d" % (owner, s["kind"], s["bi"]), ok,
                  "the `.sent` half of this very send must be recorded in flight exactly once, with the recorder of the same kind",
                  sites=[s["sp"]] + [r["sp"] for r in mine], got=[(r["kind"], render(r["term"])[:120]) for r in mine], key="recorded-once")
        if ok:
            r = mine[0]
            ctx.check("%s:send_requests<%s>@bb%d" % (owner, s["kind"], s["bi"]),
                      b.dominates(s["bi"], r["bi"]) and b.postdominates(r["bi"], s["bi"]) and render(r["term"][2][0]) in ("self.state", "self"),
                      "recording happens on every path after the send, into the engine's own state", sites=[r["sp"]],
                      got=render(r["term"])[:160], key="every-path")
    for s in sends:
        owner = mir.short(whomay.owner_fn(s["def"]))
        g = s["body"].guard(s["bi"])
        extra = sorted(set(mir.render_atom(a)[:100] for conj in g for a in conj
                           if not (a[0] == "is" and render(a[1]) == "command")))
        ctx.check("%s:send_requests<%s>@bb%d" % (owner, s["kind"], s["bi"]), not extra,
                  "the requests are sent unconditionally once the action runs (only the command kind selects the action)",
                  sites=[s["sp"]], got=extra, key="unconditional")
    for r in recs:
        owner = mir.short(whomay.owner_fn(r["def"]))
        src = _sent_of(r["term"][2][1])
        ok = src is not None and src[0] == "call" and src[1] == target
        ctx.check("%s:record_in_flight_%s@bb%d" % (owner, r["kind"], r["bi"]), ok,
                  "only the `.sent` output of a send may be marked in flight (never the input requests, the errors or refused requests)",
                  sites=[r["sp"]], got=render(r["term"][2][1])[:200], key="sent-only")
    ctx.floor("send_requests call sites", len(sends), floor_sends)
    ctx.floor("record_in_flight_* call sites", len(recs), floor_records)
    return sends, recs
