"""C09 - late or duplicate exchange messages never roll engine state back.

Structural clause decided: every store of exchange-timestamped data (balance, top of book, last traded
price, open-order details) is control-dependent on (or value-filtered by) a comparison
`stored time <= / < incoming time`, and the stored time and value come from one and the same message.
"""
from sa import atoms, mir, whomay
from sa.mir import render, render_guard
from rules import common

EXPLANATION = (
    "Implication rules over MIR control dependence: each store into AssetState.balance, "
    "DefaultInstrumentMarketData.{l1,last_traded_price} and tracked Order.state (when the tracked state can "
    "carry exchange data) must have, in every disjunct of its guard, a comparison stored-time <=/< message-time "
    "(dominating branch, Option::is_none_or(pred) or Option::filter(pred) forms), with value and time taken from "
    "the same message; plus who-may-write tables for those fields and routing of account snapshots through the "
    "guarded functions. Decides 'store => not older' for every path, not the value-level claim about sequences."
)
NOT_DECIDED = [
    "that the greatest timestamp so far is held after every permutation (follows by induction from "
    "store => not-older and time/value from one message; the induction is a paper argument, DESIGN.md App. D)",
    "user-provided InstrumentDataState / GlobalData processors",
]
ASSUMPTIONS = ["chrono DateTime PartialOrd is the time order", "rustc MIR construction and the driver's export are faithful"]

ASSET = "barter::engine::state::asset::AssetState"
MD = "barter::engine::state::instrument::data::DefaultInstrumentMarketData"


def _time_guard(ctx, body, guard, stored_pred, incoming_pred, none_of=None):
    """every disjunct has cmp(le|lt, stored, incoming) or an accepted 'nothing stored yet' atom (`self.<none_of> is None`:
    the explicit form of `.is_none_or(..)`)"""
    def pred(kind, x):
        if kind == "cmp":
            op, a, b, _cond = x
            return op in ("le", "lt") and stored_pred(a) and incoming_pred(b)
        if kind == "atom" and none_of is not None:
            return x[0] == "is" and render(x[1]) == none_of and x[2] == frozenset(["None"])
        return False
    return atoms.guard_implies(ctx.facts, body, guard, pred)


def _extra_atoms(ctx, g, allowed_atom, allowed_fact):
    """atoms of a guard that are neither structurally allowed nor the time comparison"""
    out = []
    for conj in g:
        for a in conj:
            if allowed_atom(a):
                continue
            fs = atoms.atom_facts(ctx.facts, a)
            if fs and all(allowed_fact(f) for f in fs):
                continue
            out.append(mir.render_atom(a)[:160])
    return sorted(set(out))


def r1(ctx):
    b = ctx.fibody(name="update_from_balance", self_adt=ASSET, trait="")
    n = 0
    eff = common.effects(b, lambda p: common.path_has(p, "self", "balance"))
    for e in eff:
        n += 1
        g = b.guard(e["bi"])
        # accepted: nothing held yet (self.balance is None)  or  time guard
        def none_or_time(kind, x):
            if kind == "atom":
                return x[0] == "is" and render(x[1]) == "self.balance" and x[2] == frozenset(["None"])
            op, a, bb_, _c = x
            return (op in ("le", "lt") and render(a).startswith("self.balance") and atoms.ends_with(a, "time")
                    and atoms.mentions_param(bb_, "snapshot") and atoms.ends_with(bb_, "time_exchange"))
        ok = atoms.guard_implies(ctx.facts, b, g, none_or_time)
        ctx.check("AssetState::update_from_balance:%s" % e["what"], ok,
                  "store of balance data must be guarded by `held.time <= snapshot.time_exchange` (or nothing held)",
                  sites=[e["sp"]], got=render_guard(g), key=e["what"])
        extra = _extra_atoms(ctx, g, lambda a: a[0] == "is" and render(a[1]) == "self.balance",
                             lambda f: f[0] in ("le", "lt") and render(f[1]).startswith("self.balance") and atoms.mentions_param(f[2], "snapshot"))
        ctx.check("AssetState::update_from_balance:%s" % e["what"], not extra,
                  "the update depends on nothing but 'is a balance held' and the time order: a message that is not older is always applied "
                  "(otherwise the held timestamp would fall behind)", sites=[e["sp"]], got=extra, key=e["what"] + ":only-time")
        # time and value from the same message
        if e["kind"] == "store":
            v = e["value"]
            path = render(e["path"])
            if path.endswith(".time"):
                ctx.check("AssetState::update_from_balance:time-source", render(v) == "snapshot.0.time_exchange",
                          "stored time must be the snapshot's time_exchange", sites=[e["sp"]], got=render(v))
            elif path.endswith(".value"):
                ctx.check("AssetState::update_from_balance:value-source", render(v) == "snapshot.0.balance",
                          "stored value must be the snapshot's balance", sites=[e["sp"]], got=render(v))
            else:
                r = render(v)
                tf = common.agg_fields(v, "Timed::Timed")
                ctx.check("AssetState::update_from_balance:init-source",
                          tf == {"value": "snapshot.0.balance", "time": "snapshot.0.time_exchange"},
                          "initial balance must pair the snapshot's balance with the snapshot's time",
                          sites=[e["sp"]], got=r)
    ctx.floor("stores to AssetState.balance", n, 2)


def r2(ctx):
    ds = ctx.find(name="process", self_adt=MD, allow_many=True)
    d = [x for x in ds if "MarketEvent" in x]
    if len(d) != 1:
        raise Exception("expected one market-event processor of DefaultInstrumentMarketData, got %r" % d)
    b = ctx.ibody(d[0])
    n = 0
    for field, tname in (("l1", "last_update_time"), ("last_traded_price", "time")):
        eff = common.effects(b, lambda p: common.path_has(p, "self", field))
        ctx.check("DefaultInstrumentMarketData::process:%s" % field, len(eff) >= 1,
                  "a guarded update of `%s` must exist" % field, key="present")
        for e in eff:
            n += 1
            g = b.guard(e["bi"])
            ok = _time_guard(ctx, b, g,
                             lambda a: render(a).startswith("self." + field) and atoms.ends_with(a, tname),
                             lambda t: render(t) == "event.time_exchange", none_of="self." + field)
            ctx.check("DefaultInstrumentMarketData::process:%s" % field, ok,
                      "update of `%s` must be guarded by `held time < event.time_exchange`" % field,
                      sites=[e["sp"]], got=render_guard(g), key="guard")
            extra = _extra_atoms(ctx, g,
                                 lambda a: (a[0] == "is" and render(a[1]) in ("event.kind", "self." + field)) or
                                           (a[0] == "is" and a[1][0] == "call" and a[1][1].endswith("from_f64") and a[2] == frozenset(["Some"])),
                                 lambda f: f[0] in ("le", "lt") and render(f[1]).startswith("self." + field) and render(f[2]) == "event.time_exchange")
            ctx.check("DefaultInstrumentMarketData::process:%s" % field, not extra,
                      "the update depends on nothing but the event kind, the time order and the price conversion: a newer event is always "
                      "applied (otherwise the held timestamp falls behind and a later stale event is accepted)",
                      sites=[e["sp"]], got=extra, key="only-time")
            # value: from the same event
            v = e.get("value") or (e["args"][1] if len(e.get("args", [])) > 1 else None)
            if v is not None:
                r = render(v)
                if field == "l1":
                    ok = r == "event.kind.as:OrderBookL1.0"
                else:
                    timed = "Timed::Timed{value: FromPrimitive::from_f64(event.kind.as:Trade.0.price).as:Some.0, time: event.time_exchange}"
                    # the held value is replaced by Some(converted price, event time) - never cleared (a cleared value lets any
                    # older trade in as "first ever")
                    ok = r in (timed, "Option::Some{0: %s}" % timed)
                ctx.check("DefaultInstrumentMarketData::process:%s-source" % field, ok,
                          "stored value and time must come from the event being processed", sites=[e["sp"]], got=r)
    ctx.floor("guarded market-data updates", n, 2)


def r3(ctx):
    n = common.order_time_guards(ctx)
    ctx.floor("stores of exchange order data over a state that can carry exchange data", n, 3)


def r4(ctx):
    b = ctx.fibody(name="update_from_account", self_adt="barter::engine::state::EngineState", trait="")
    # no direct stores at all in the routing function
    st = [s for s in b.stores()]
    ctx.check("EngineState::update_from_account", not st,
              "the account-event router must not store into state directly (only through the guarded updaters)",
              sites=[s[4]["sp"] for s in st], got=[render(s[2]) for s in st], key="no-direct-stores")
    calls = b.real_calls()
    snap = [(bi, t, term) for bi, t, term in calls
            if any(a[0] == "is" and render(a[1]) == "event.kind" and a[2] == frozenset(["Snapshot"])
                   for c in b.guard(bi) for a in c)]
    mut = []
    for bi, t, term in snap:
        if common.mutates_self(b, t, term):
            mut.append((bi, t, term))
    names = sorted(set(mir.short(term[1]) for _, _, term in mut))
    allowed = {"AssetStates::asset_index_mut", "AssetState::update_from_balance",
               "InstrumentStates::instrument_index_mut", "InstrumentState::update_from_account_snapshot",
               "InstrumentState::update_from_order_snapshot",     # (update_from_account_snapshot's own body written out)
               "Processor::process"}
    ctx.check("EngineState::update_from_account:Snapshot-arm", set(names) <= allowed,
              "the full-snapshot arm may mutate state only via update_from_balance / update_from_account_snapshot",
              sites=[t["sp"] for _, t, _ in mut], got=names, want=sorted(allowed), key="mutators")
    need = {"AssetState::update_from_balance", "InstrumentState::update_from_account_snapshot"}
    if "InstrumentState::update_from_account_snapshot" not in names and "InstrumentState::update_from_order_snapshot" in names:
        need = {"AssetState::update_from_balance", "InstrumentState::update_from_order_snapshot"}
    ctx.check("EngineState::update_from_account:Snapshot-arm", need <= set(names),
              "the full-snapshot arm must route balances and orders item by item through the guarded updaters",
              got=names, want=sorted(need), key="routes")
    # the items handed to the guarded updaters are the event's own payload items, unmodified
    want_args = {
        "AssetState::update_from_balance": {"Snapshot::Snapshot{0: Iterator::next(event.kind.as:Snapshot.0.balances).as:Some.0}",
                                            "Snapshot::Snapshot{0: event.kind.as:BalanceSnapshot.0.0}"},
        "InstrumentState::update_from_account_snapshot": {"Iterator::next(event.kind.as:Snapshot.0.instruments).as:Some.0"},
        "InstrumentState::update_from_order_snapshot": {"Snapshot::Snapshot{0: event.kind.as:OrderSnapshot.0.0}",
                                                        "Snapshot::Snapshot{0: Iterator::next(Iterator::next(event.kind.as:Snapshot.0.instruments).as:Some.0.orders).as:Some.0}"},
    }
    n_args = 0
    for bi, t, term in calls:
        nm = mir.short(term[1])
        if nm in want_args:
            n_args += 1
            ctx.check("EngineState::update_from_account:%s" % nm, render(term[2][1]) in want_args[nm],
                      "the timestamped item applied is the event's own payload item, unmodified (its own exchange time decides)",
                      sites=[t["sp"]], got=render(term[2][1])[:200], want=sorted(want_args[nm]), key="payload")
    ctx.floor("payload hand-offs in update_from_account", n_args, 4)
    # InstrumentState::update_from_account_snapshot -> orders only via update_from_order_snapshot
    s = ctx.fibody(name="update_from_account_snapshot", self_adt="barter::engine::state::instrument::InstrumentState", trait="")
    st = s.stores()
    ctx.check("InstrumentState::update_from_account_snapshot", not st, "no direct stores", got=[render(x[2]) for x in st],
              key="no-direct-stores")
    mut = [(bi, t, term) for bi, t, term in s.real_calls() if common.mutates_self(s, t, term)]
    names = sorted(set(mir.short(term[1]) for _, _, term in mut))
    ctx.check("InstrumentState::update_from_account_snapshot", names == ["InstrumentState::update_from_order_snapshot"],
              "orders of a snapshot are applied one by one through update_from_order_snapshot only",
              sites=[t["sp"] for _, t, _ in mut], got=names, key="mutators")
    ios = ctx.fibody(name="update_from_order_snapshot", self_adt="barter::engine::state::instrument::InstrumentState", trait="")
    mut = [(bi, t, term) for bi, t, term in ios.real_calls() if common.mutates_self(ios, t, term)]
    names = sorted(set(mir.short(term[1]) for _, _, term in mut))
    ctx.check("InstrumentState::update_from_order_snapshot", names == ["Orders::update_from_order_snapshot"] and not ios.stores(),
              "InstrumentState forwards order snapshots to Orders::update_from_order_snapshot and nothing else",
              got=names, key="forward")


def r5(ctx):
    """who-may-write: library writers of the guarded fields are the guarded functions (+ constructors)"""
    table = [
        (ASSET, "balance", {"barter::engine::state::asset::AssetState::update_from_balance"},
         {"barter::engine::state::asset::AssetState::new",
          "barter::engine::state::asset::generate_empty_indexed_asset_states"}),
        (MD, "l1", {"process"}, set()),
        (MD, "last_traded_price", {"process"}, set()),
    ]
    for adt, field, allowed, ctors in table:
        ws = whomay.writers_of(ctx.facts, adt, field)
        bad = []
        n_ok = 0
        for d, bi, kind, sp in ws:
            o = whomay.owner_fn(d)
            rec = ctx.facts.bodies.get(o, {})
            if rec.get("_test") or ctx.facts.bodies[d].get("test"):
                continue
            derived = common.is_derived(ctx.facts, o)
            if kind == "construct":
                # building a fresh value is not an overwrite of held state
                n_ok += 1
                continue
            if derived:
                n_ok += 1
                continue
            if o in allowed or rec.get("name") in allowed and rec.get("impl_self_adt") == adt:
                n_ok += 1
                continue
            bad.append((o, kind, sp))
        ctx.check("%s.%s" % (mir.short(adt), field), not bad,
                  "only the timestamp-guarded updater may write this field in library code",
                  sites=[x[2] for x in bad], got=[(x[0], x[1]) for x in bad], key="writers")
        ctx.floor("writers of %s.%s" % (mir.short(adt), field), n_ok, 1)


def r6(ctx):
    """the exchange-confirmed open data held for an order survives in-flight markers (a repeated cancel command must not
    discard it, otherwise a late older report is accepted afterwards) - shared with C01.R5 / C01.R6"""
    from rules import C01
    C01.r5(ctx)
    C01.r6(ctx)


RULES = [
    ("R6", "in-flight markers keep the last exchange-confirmed open data (open_meta table, record_in_flight_cancel)", r6),
    ("R1", "balance stores guarded by held.time <= snapshot.time_exchange; time and value from one snapshot", r1),
    ("R2", "market-data stores guarded by held time < event.time_exchange; value and time from that event", r2),
    ("R3", "order-state stores over exchange-confirmed state guarded by time_exchange order (= C01.R2)", r3),
    ("R4", "account snapshots are applied item by item through the guarded updaters; router has no direct stores", r4),
    ("R5", "who-may-write: AssetState.balance, DefaultInstrumentMarketData.{l1,last_traded_price}", r5),
]
