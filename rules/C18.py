"""C18 - reported drawdowns are the peak-to-trough declines of the value curve."""
import sympy

from sa import atoms, formula, mir, table
from sa.mir import render, render_guard
from rules import common

EXPLANATION = (
    "Guard table and ordering rules of DrawdownGenerator::update: the new-peak branch is taken exactly under "
    "`value > peak` (strict), the first value only seeds the peak, the deepest decline so far is replaced exactly under "
    "`current > drawdown_max` with current = (peak - value)/peak (sympy leaf), the completed drawdown is generated "
    "BEFORE the peak / peak-time / max are reset and all three resets are present, and the emitted record is "
    "(drawdown_max, time_peak, time_now) with time_now stored first; MaxDrawdownGenerator replaces iff |next| > "
    "|current|; MeanDrawdownGenerator increments its count before both running means and feeds them role-correctly; "
    "both tear-sheet generators hand every emitted drawdown (and, on generate, the in-progress one) to both the mean and "
    "the max generator (sibling check)."
)
NOT_DECIDED = ["that the emitted set is the peak-to-trough decomposition of an arbitrary curve (paper argument)",
               "numeric mean / max values", "Welford mean arithmetic (C17, not claimed)"]
ASSUMPTIONS = ["rust_decimal comparison and checked_div"]
TECHNIQUE = "guard table + ordering (dominance) + leaf formula + sibling cross-check"

DG = "barter::statistic::metric::drawdown::DrawdownGenerator"
MAXG = "barter::statistic::metric::drawdown::max::MaxDrawdownGenerator"
MEANG = "barter::statistic::metric::drawdown::mean::MeanDrawdownGenerator"


def _atoms(g):
    out = []
    for conj in g:
        out.append(sorted(_atom_key(a) for a in conj))
    return sorted(out)


def _atom_key(a):
    c = atoms.atom_cmp(a)
    if c:
        return "%s(%s, %s)" % (c[0], render(c[1]), render(c[2]))
    return mir.render_atom(a)


def r1(ctx):
    b = ctx.fibody(name="update", self_adt=DG, trait="")
    st = {render(s[2]): [] for s in b.stores()}
    for bi, si, path, value, s in b.stores():
        st[render(path)].append((render(value), _atoms(b.guard(bi)), bi, si, s["sp"]))
    PEAK = "self.peak.as:Some.0"
    new_peak = ["is self.peak Some", "lt(%s, point.value)" % PEAK]
    first = [["self.peak is None"]]

    def has(path, value, guard, what, key):
        got = [(v, g) for v, g, _, _, _ in st.get(path, [])]
        ok = any(v == value and g == guard for v, g in got)
        ctx.check("DrawdownGenerator::update:%s" % key, ok, what, got=got, want=(value, guard), sites=[x[4] for x in st.get(path, [])], key="store")
    np_g = [sorted(["lt(%s, point.value)" % PEAK, "self.peak is Some"])]
    has("self.time_now", "point.time", [[]], "the current time is recorded for every point", "time_now")
    has("self.peak", "Option::Some{0: point.value}", first, "the first value seeds the peak (and emits nothing)", "seed-peak")
    has("self.time_peak", "Option::Some{0: point.time}", first, "and its time", "seed-time")
    has("self.peak", "Option::Some{0: point.value}", np_g, "a value strictly above the peak becomes the new peak", "new-peak")
    has("self.time_peak", "Option::Some{0: point.time}", np_g, "with its time", "new-peak-time")
    has("self.drawdown_max", "rust_decimal::Decimal::ZERO", np_g, "and the running maximum decline is reset", "reset-max")
    # deepest-so-far
    dm = [x for x in st.get("self.drawdown_max", []) if x[0] != "rust_decimal::Decimal::ZERO"]
    ok = len(dm) == 1
    ctx.check("DrawdownGenerator::update:deepest", ok, "one store of a new deepest decline", got=[(x[0], x[1]) for x in dm], key="one")
    if ok:
        v, g, bi, si, sp = dm[0]
        cur = "arithmetic_impls::checked_div(Sub::sub(%s, point.value), %s).as:Some.0" % (PEAK, PEAK)
        want_g = [sorted(["le(point.value, %s)" % PEAK, "self.peak is Some",
                          "arithmetic_impls::checked_div(Sub::sub(%s, point.value), %s) is Some" % (PEAK, PEAK), "lt(self.drawdown_max, %s)" % cur])]
        ctx.check("DrawdownGenerator::update:deepest", v == cur and g == want_g,
                  "the deepest decline is replaced exactly when the current relative decline (peak - value)/peak exceeds it",
                  sites=[sp], got=(v, g), want=(cur, want_g), key="guard")
    # generate() is evaluated before the resets
    gens = [(bi, t, tm) for bi, t, tm in b.real_calls() if mir.short(tm[1]) == "DrawdownGenerator::generate"]
    ok = len(gens) == 1 and _atoms(b.guard(gens[0][0])) == np_g
    ctx.check("DrawdownGenerator::update:emit", ok, "the completed drawdown is generated exactly on a new peak", got=[_atoms(b.guard(x[0])) for x in gens], key="on-new-peak")
    if ok:
        gb = gens[0][0]
        resets = [x for p in ("self.peak", "self.time_peak", "self.drawdown_max") for x in st.get(p, []) if x[1] == np_g]
        ctx.check("DrawdownGenerator::update:emit", len(resets) == 3 and all(b.dominates(gb, x[2]) and gb != x[2] for x in resets),
                  "generated BEFORE the peak, the peak time and the maximum are reset (it must describe the finished decline)",
                  sites=[x[4] for x in resets], key="before-reset")
        tn = st.get("self.time_now", [])
        ctx.check("DrawdownGenerator::update:emit", len(tn) == 1 and b.dominates(tn[0][2], gb),
                  "and after the current time was stored (it is the recovery time)", key="after-time")
        rets = {}
        for g, t, bi in b.expanded_cases(0):
            rets[str(_atoms(g))] = render(t)
        ctx.check("DrawdownGenerator::update:emit", rets.get(str(np_g)) == render(gens[0][2]),
                  "and that record is what update returns", got=rets, key="returned")
        other = [v for k, v in rets.items() if k != str(np_g)]
        ctx.check("DrawdownGenerator::update:emit", all(v == "Option::None{}" for v in other), "no record otherwise", got=other, key="none-otherwise")


def r3(ctx):
    g = ctx.fibody(name="generate", self_adt=DG, trait="")
    r = render(g.return_term())
    somes = [t for t in mir.subterms(g.return_term()) if t[0] == "agg" and t[1].endswith("drawdown::Drawdown::Drawdown")]
    ok = len(somes) == 1
    f = {k: render(v) for k, v in zip(somes[0][2], somes[0][3])} if ok else {}
    ctx.check("DrawdownGenerator::generate", f.get("value") == "self.drawdown_max" and f.get("time_end") == "self.time_now" and
              "self.time_peak" in f.get("time_start", ""),
              "the record is (deepest decline, start = peak time, end = current time)", got=f, key="fields")
    tab = common.case_table(g)
    some = [k for k, v in tab.items() if any(x.startswith("Option::Some{0: Drawdown::Drawdown{") for x in v)]
    none = [k for k, v in tab.items() if v == ["Option::None{}"]]
    ctx.check("DrawdownGenerator::generate", some == ["(ne(rust_decimal::Decimal::ZERO, self.drawdown_max) && self.time_peak is Some)"] and
              none == ["(eq(rust_decimal::Decimal::ZERO, self.drawdown_max) && self.time_peak is Some) || (self.time_peak is None)"] and len(tab) == 2,
              "a record is emitted exactly when a peak exists and a decline actually occurred (drawdown_max != 0)",
              got={k: [x[:80] for x in v] for k, v in tab.items()}, key="nonzero")
    b = ctx.fibody(name="update", self_adt=DG, trait="")
    cur = [tm for bi, t, tm in b.real_calls() if tm[1].endswith("checked_div")]
    ok = len(cur) == 1
    if ok:
        try:
            p, v = sympy.symbols("peak value")

            def sym(t):
                return {"self.peak.as:Some.0": p, "point.value": v}.get(render(t))
            e = formula.to_sympy(ctx.facts, ("call", "std::ops::Div::div", cur[0][2], 0), sym=sym)
            ok = formula.equal(e, (p - v) / p)
        except formula.NotAFormula:
            ok = False
    ctx.check("DrawdownGenerator::update:current", ok, "current decline = (peak - value) / peak", got=[render(x) for x in cur], key="formula")


def r4(ctx):
    # MaxDrawdownGenerator::update as a decision table over {a maximum is held?} x {|next| > |current|?}: the FINAL value of
    # self.max per cell - whether the code takes the value out and always writes one back, or only writes when it changes
    b = ctx.fibody(name="update", self_adt=MAXG, trait="")
    stores = []
    for bi, si, path, value, s_ in b.stores():
        for g2, v2 in b.expand_term(b.guard(bi), value):
            stores.append((render(common.norm_map(path)), render(common.norm_map(v2)), g2))
    ctx.check("MaxDrawdownGenerator::update", bool(stores) and all(x[0] == "self.max" for x in stores), "only the maximum is stored",
              got=sorted(set(x[0] for x in stores)), key="store")
    cur = "self.max.as:Some.0"
    nxt = "Option::Some{0: MaxDrawdown::MaxDrawdown{0: next_drawdown}}"

    def val(cell):
        def v(a):
            t = common.norm_map(a[1])
            if a[0] == "is" and render(t) == "self.max":
                return ("Some" if cell["held"] else "None") in a[2]
            c = atoms.atom_cmp((a[0], t) + tuple(a[2:]))
            if c:
                op, x, y = c[0], render(c[1]), render(c[2])
                A, B = "Decimal::abs(%s.0.value)" % cur, "Decimal::abs(next_drawdown.value)"
                if (x, y) == (A, B):      # |cur| op |next|
                    return {"lt": cell["greater"], "le": None}.get(op) if op == "lt" else (None if op != "le" else None)
                if (x, y) == (B, A):      # |next| op |cur|
                    return {"le": not cell["greater"], "lt": None}.get(op) if op == "le" else None
            return None
        return v
    tab, bad = {}, []
    for held in (False, True):
        for greater in ((False, True) if held else (False,)):
            cell = {"held": held, "greater": greater}
            try:
                act = sorted(set(v for p_, v, g in stores if table.eval_guard(g, val(cell))))
            except table.UnknownAtom as ex:
                bad.append(str(ex)[:160])
                continue
            final = act if act else ["(unchanged)"]
            tab["held=%s,greater=%s" % (held, greater)] = final
    want = {"held=False,greater=False": [nxt], "held=True,greater=True": [nxt]}
    ok = not bad and tab.get("held=False,greater=False") == [nxt] and tab.get("held=True,greater=True") == [nxt] and \
        tab.get("held=True,greater=False") in (["(unchanged)"], ["Option::Some{0: %s}" % cur])
    ctx.check("MaxDrawdownGenerator::update", ok, "the maximum is replaced exactly when |next| > |current| (or none is held); otherwise it "
              "keeps its value", got={"table": tab, "unknown": bad}, key="table")
    m = ctx.fibody(name="update", self_adt=MEANG, trait="")
    calls = m.real_calls()
    inc = [(bi, si) for bi, si, path, value, s in m.stores() if render(path) == "self.count" and
           render(value) == "AddWithOverflow(self.count, 1).0"]
    allc = [render(value) for bi, si, path, value, s in m.stores() if render(path) == "self.count"]
    ctx.check("MeanDrawdownGenerator::update", allc == ["AddWithOverflow(self.count, 1).0"], "the count grows by exactly one per drawdown", got=allc, key="count-plus-one")
    means = [(bi, t, tm) for bi, t, tm in calls if mir.short(tm[1]) == "welford_online::calculate_mean"]
    ok = len(inc) == 1 and len(means) == 2 and all(m.dominates(inc[0][0], x[0]) for x in means)
    ctx.check("MeanDrawdownGenerator::update", ok, "the count is incremented once, before both running means are updated", got=(inc, len(means)), key="count-first")
    if len(means) == 2:
        a = sorted([[render(x) for x in tm[2]] for _, _, tm in means])
        prev = "Option::take(self.mean_drawdown).as:Some.0"
        want = sorted([[prev + ".mean_drawdown", "next_drawdown.value", "From::from(self.count)"],
                       [prev + ".mean_drawdown_ms", "TimeDelta::num_milliseconds(Drawdown::duration(next_drawdown))", "(self.count as i64)"]])
        ctx.check("MeanDrawdownGenerator::update", a == want, "depth mean from depths, duration mean from durations, both with the new count",
                  got=a, want=want, key="roles")
    first = [render(t) for g, t, bi in [(g, t, bi) for s_ in m.stores() if render(s_[2]) == "self.mean_drawdown" for g, t, bi in
                                         (m.local_cases([x for x in mir.subterms(s_[3]) if x[0] == "phi" and len(x) > 2 and x[2] is not None][0][2])
                                          if [x for x in mir.subterms(s_[3]) if x[0] == "phi" and len(x) > 2 and x[2] is not None] else [])]
             if "take(self.mean_drawdown) is None" in render_guard(g)]
    ctx.check("MeanDrawdownGenerator::update", first == ["MeanDrawdown::MeanDrawdown{mean_drawdown: next_drawdown.value, mean_drawdown_ms: TimeDelta::num_milliseconds(Drawdown::duration(next_drawdown))}"],
              "the first drawdown seeds both means", got=first, key="seed")


def _feeds(ctx, b, source_pred):
    """for each drawdown produced in b by a call matching source_pred: which generators receive it"""
    out = {}
    calls = b.real_calls()
    for bi, t, tm in calls:
        if source_pred(tm):
            src = tm
            recv = set()
            for bj, t2, tm2 in calls:
                s = mir.short(tm2[1])
                if s in ("MeanDrawdownGenerator::update", "MaxDrawdownGenerator::update") and mir.mk_proj(src, ("as:Some", "0")) == tm2[2][1]:
                    g = b.guard(bj)
                    if all(any(a[0] == "is" and a[1] == src and a[2] == frozenset(["Some"]) for a in conj) for conj in g):
                        recv.add((s, render(tm2[2][0])))
            out[render(src)[:80]] = recv
    return out


def r5(ctx):
    TS = "barter::statistic::summary::instrument::TearSheetGenerator"
    TA = "barter::statistic::summary::asset::TearSheetAssetGenerator"
    res = {}
    for adt, upd, prefix in ((TS, "update_from_position", "self.pnl_"), (TA, "update_from_balance", "self.")):
        for fn, src in ((upd, "DrawdownGenerator::update"), ("generate", "DrawdownGenerator::generate")):
            b = ctx.fibody(name=fn, self_adt=adt, trait="")
            f = _feeds(ctx, b, lambda tm, src=src: mir.short(tm[1]) == src)
            name = "%s::%s" % (mir.short(adt).split("::")[-1], fn)
            want = {("MeanDrawdownGenerator::update", prefix + "drawdown_mean"), ("MaxDrawdownGenerator::update", prefix + "drawdown_max")}
            ok = len(f) == 1 and next(iter(f.values())) == want
            res[name] = sorted(next(iter(f.values()))) if f else None
            ctx.check(name, ok, "every drawdown produced here is given to both the mean and the max generator of the same tear sheet",
                      got={k: sorted(v) for k, v in f.items()}, want=sorted(want), key="feeds-both")
    # the reported mean / max are read AFTER the in-progress drawdown has been folded in, and on every path
    for adt, prefix in ((TS, "self.pnl_"), (TA, "self.")):
        gb = ctx.fibody(name="generate", self_adt=adt, trait="")
        name = "%s::generate" % mir.short(adt).split("::")[-1]
        true = frozenset([frozenset()])
        for gen, upd, fld in (("MaxDrawdownGenerator", "MaxDrawdownGenerator::update", "drawdown_max"),
                              ("MeanDrawdownGenerator", "MeanDrawdownGenerator::update", "drawdown_mean")):
            reads = [blk["i"] for blk in gb.blocks if not blk.get("cleanup") and blk["i"] in gb.reachable and blk["term"]["t"] == "call" and
                     "def" in blk["term"]["f"] and blk["term"]["f"]["def"].endswith(gen + "::generate")]
            ups = [bi for bi, t, tm in gb.real_calls() if mir.short(tm[1]) == upd and render(tm[2][0]) == prefix + fld]
            ok = len(reads) == 1 and len(ups) == 1 and gb.guard(reads[0]) == true and reads[0] in gb.reach_from(ups[0]) and \
                ups[0] not in gb.reach_from(reads[0])
            rt = gb.return_term()
            fl = dict(zip(rt[2], rt[3])) if rt[0] == "agg" else {}
            key = ("pnl_" if adt == TS else "") + fld
            ok = ok and render(fl.get(key, ("none",))) in (prefix + fld + ".max", prefix + fld + ".mean_drawdown")
            ctx.check(name, ok, "the reported %s is generated unconditionally and only AFTER the in-progress drawdown was folded into it "
                      "(a copy taken earlier is stale)" % fld, got={"generate blocks": reads, "update blocks": ups, "field": render(fl.get(key, ("none",)))[:80]},
                      key="after-fold:" + fld)
    # what feeds the drawdown generator
    b = ctx.fibody(name="update_from_position", self_adt=TS, trait="")
    u = [tm for bi, t, tm in b.real_calls() if mir.short(tm[1]) == "DrawdownGenerator::update"]
    ctx.check("TearSheetGenerator::update_from_position", len(u) == 1 and render(u[0][2][1]) == "Timed::Timed{value: self.pnl_returns.pnl_raw, time: self.time_engine_now}"
              and render(u[0][2][0]) == "self.pnl_drawdown", "the PnL curve point is (cumulative realised PnL, exit time)", got=[render(x) for x in u], key="curve")
    for nm, bb in (("TearSheetGenerator::update_from_position", b), ("TearSheetAssetGenerator::update_from_balance", ctx.fibody(name="update_from_balance", self_adt=TA, trait=""))):
        us = [bi for bi, t, tm in bb.real_calls() if mir.short(tm[1]) == "DrawdownGenerator::update"]
        ctx.check(nm, len(us) == 1 and bb.guard(us[0]) == frozenset([frozenset()]),
                  "every point of the curve is fed to the drawdown generator (unconditionally - a skipped point can hide a trough or a peak)",
                  got=[render_guard(bb.guard(x))[:200] for x in us], key="every-point")
    common.summary_forwarders(ctx)
    pu = [bi for bi, t, tm in b.real_calls() if mir.short(tm[1]) == "PnLReturns::update"]
    du = [bi for bi, t, tm in b.real_calls() if mir.short(tm[1]) == "DrawdownGenerator::update"]
    ctx.check("TearSheetGenerator::update_from_position", len(pu) == 1 and len(du) == 1 and b.dominates(pu[0], du[0]) and pu[0] != du[0],
              "the PnL is accumulated before the curve point is taken", key="order")
    a = ctx.fibody(name="update_from_balance", self_adt=TA, trait="")
    u = [tm for bi, t, tm in a.real_calls() if mir.short(tm[1]) == "DrawdownGenerator::update"]
    ctx.check("TearSheetAssetGenerator::update_from_balance", len(u) == 1 and render(u[0][2][1]) == "Timed::Timed{value: balance.0.balance.total, time: balance.0.time_exchange}"
              and render(u[0][2][0]) == "self.drawdown", "the equity curve point is (total balance, exchange time)", got=[render(x) for x in u], key="curve")
    # the FIRST point of the equity curve: init / reset seed the drawdown generator from the same figure (total balance, its time)
    ib = ctx.fibody(name="init", self_adt=TA, trait="")
    p = ib.param_name(1)
    rt = common.resolve_calls(ctx, ib.return_term(), lambda c: mir._strip_generics(c).endswith(("DrawdownGenerator::init", "Timed::new")))
    dd = common.agg_fields(rt, "DrawdownGenerator::DrawdownGenerator")
    top = common.agg_fields(rt, "TearSheetAssetGenerator::TearSheetAssetGenerator")
    ok = dd.get("peak") == "Option::Some{0: %s.value.total}" % p and dd.get("time_peak") == "Option::Some{0: %s.time}" % p and \
        dd.get("time_now") == "%s.time" % p and "ZERO" in dd.get("drawdown_max", "") and top.get("balance_now") == "Option::Some{0: %s.value}" % p
    ctx.check("TearSheetAssetGenerator::init", ok, "the equity curve starts at (total balance, its time) of the initial balance - the same figure "
              "every later point is taken from", got={"drawdown": dd, "balance_now": top.get("balance_now")}, key="seed")
    rb = ctx.fibody(name="reset", self_adt=TA, trait="")
    st = [(render(x[2]), render(x[3])) for x in rb.stores()]
    ctx.check("TearSheetAssetGenerator::reset", st == [("self", "TearSheetAssetGenerator::init(%s)" % rb.param_name(2))] or
              (len(st) >= 4 and all(a.startswith("self.") for a, _ in st)),
              "reset re-seeds the whole generator from the given balance", got=st, key="reset")


RULES = [
    ("R1", "DrawdownGenerator::update guard table and generate-before-reset ordering", r1),
    ("R3", "emitted record fields and current-decline formula", r3),
    ("R4", "MaxDrawdownGenerator replace-iff-greater table; MeanDrawdownGenerator count-first and argument roles", r4),
    ("R5", "tear-sheet generators feed every drawdown to both mean and max (siblings); curve points", r5),
]
