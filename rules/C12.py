"""C12 - reconnecting streams deliver every item once, in order, with one notice per drop."""
import sympy

from sa import atoms, formula, mir, whomay
from sa.mir import render, render_guard
from rules import common

EXPLANATION = (
    "Shape and ordering rules on the stream-adapter closures: the backoff scan closure resets the backoff on a "
    "successful init and, on a failed init, generates the sleep future from the CURRENT backoff before multiplying it, "
    "the produced future awaiting that sleep before yielding the error (which is then dropped by result.ok()); backoff "
    "state arithmetic (initial on construction and reset, min(current*multiplier, max) on multiply; sleep duration = "
    "current); termination table (items pass, terminal error ends the connection, other errors pass); exactly one "
    "Reconnecting notice per connection, constructed as the single item of a `once` chained AFTER that connection's own "
    "items; error-handler table; init_reconnecting_stream = once(initial) chained with repeated re-initialisation; "
    "merge = Some-wrapped inputs chained with None and cut at the first None."
)
NOT_DECIDED = ["in-order exactly-once delivery, 'never ends', wait durations as observed time and merge fairness: semantics of the futures / tokio "
               "combinators (chain, once, scan, filter_map, flatten, map_while, select); the rules fail closed if the mechanism is rewritten"]
ASSUMPTIONS = ["futures::StreamExt::{chain, once, scan, filter_map, flatten} and tokio_stream map_while semantics"]
TECHNIQUE = "closure return-term tables + dominance ordering inside adapter closures"

RS = "barter_data::streams::reconnect::stream::ReconnectingStream"
STATE = "barter_data::streams::reconnect::stream::ReconnectionState"


def _closure_defs(ctx, root):
    return sorted(d for d in ctx.facts.bodies if d.startswith(root + "::{closure#"))


def r1(ctx):
    w = ctx.find(name="with_reconnect_backoff", trait=RS)
    scan = None
    for d in _closure_defs(ctx, w):
        b = ctx.ibody(d)
        names = [mir.short(tm[1]) for bi, t, tm in b.real_calls()]
        if "ReconnectionState::reset_backoff" in names and "ReconnectionState::multiply_backoff" in names:
            scan = b
    ctx.check("with_reconnect_backoff", scan is not None, "the scan closure resets / multiplies the backoff", key="closure")
    if scan is None:
        return
    calls = scan.real_calls()

    def arm(bi):
        s = set()
        for conj in scan.guard(bi):
            for a in conj:
                if a[0] == "is" and a[2] <= {"Ok", "Err"} and not (a[1][0] == "call"):
                    s |= set(a[2])
        return s
    rs = [(bi, t, tm) for bi, t, tm in calls if mir.short(tm[1]) == "ReconnectionState::reset_backoff"]
    gs = [(bi, t, tm) for bi, t, tm in calls if mir.short(tm[1]) == "ReconnectionState::generate_sleep_future"]
    ms = [(bi, t, tm) for bi, t, tm in calls if mir.short(tm[1]) == "ReconnectionState::multiply_backoff"]
    ok = len(rs) == 1 and len(gs) == 1 and len(ms) == 1
    ctx.check("with_reconnect_backoff", ok, "one reset, one sleep generation, one multiply", got=(len(rs), len(gs), len(ms)), key="shape")
    if not ok:
        return
    ctx.check("with_reconnect_backoff:Ok", arm(rs[0][0]) == {"Ok"}, "a successful (re)initialisation resets the backoff", sites=[rs[0][1]["sp"]],
              got=sorted(arm(rs[0][0])), key="reset-on-ok")
    ctx.check("with_reconnect_backoff:Err", arm(gs[0][0]) == {"Err"} and arm(ms[0][0]) == {"Err"},
              "a failed initialisation sleeps and then grows the backoff", got=(sorted(arm(gs[0][0])), sorted(arm(ms[0][0]))), key="err-arm")
    gb, mb = gs[0][0], ms[0][0]
    ctx.check("with_reconnect_backoff:Err", scan.dominates(gb, mb) and gb != mb,
              "the sleep is generated from the current backoff BEFORE it is multiplied (the first wait is the initial backoff)",
              sites=[gs[0][1]["sp"], ms[0][1]["sp"]], key="sleep-before-multiply")
    ctx.check("with_reconnect_backoff", all(render(x[2][2][0]) == "$1" for x in rs + gs + ms), "all act on the scan state", key="state")
    # the Err arm's future awaits that sleep before yielding the error
    co = [d for d in _closure_defs(ctx, scan.defn) if ctx.facts.bodies[d]["kind"] == "coroutine"]
    okc = False
    got = None
    if len(co) == 1:
        cb = ctx.ibody(co[0])
        polls = [(bi, t, tm) for bi, t, tm in cb.real_calls() if tm[1].endswith("Future::poll")]
        rets = [(g, t, bi) for g, t, bi in cb.expanded_cases(0)]
        got = ([render(x[2])[:80] for x in polls], [render(t)[:80] for g, t, bi in rets])
        okc = len(polls) == 1 and "sleep_fut" in render(polls[0][2][2][0]) and len(rets) == 1 and render(rets[0][1]) == "Option::Some{0: Result::Err{0: ^error}}" \
            and cb.dominates(polls[0][0], rets[0][2]) and polls[0][0] != rets[0][2]
    ctx.check("with_reconnect_backoff:Err", okc, "the yielded future first awaits the sleep, then produces Some(Err(error))", got=got, key="await-then-error")
    # the sleep future moved into the async block is the generated one
    aggs = []
    for blk in scan.blocks:
        for s in blk["stmts"]:
            rv = s.get("rv")
            if rv and rv["r"] == "agg" and rv["kind"]["k"] == "coroutine":
                aggs.append(scan.rvalue_term(rv))
    ctx.check("with_reconnect_backoff:Err", len(aggs) == 1 and any(x == gs[0][2] for x in aggs[0][3]),
              "that sleep is the one generated for this failure", got=[render(a)[:160] for a in aggs], key="same-sleep")
    # errors are dropped after the wait; successes pass
    wb = ctx.ibody(w)
    fm = [tm for bi, t, tm in wb.real_calls() if tm[1].endswith("StreamExt::filter_map")]
    okf = False
    if len(fm) == 1 and fm[0][2][1][0] == "agg":
        cb, _ = mir.closure_body(ctx.facts, fm[0][2][1])
        # `.ok()` read as a match (inlined view): Ok(x) -> ready(Some(x)), Err(_) -> ready(None)
        okf = render(cb.return_term()) in ("future::ready(Result::ok($1))", "future::ready(phi(Option::None{} | Option::Some{0: $1.as:Ok.0}))") and \
            common.case_table(cb) in ({"true": ["future::ready(Result::ok($1))"]},
                                      {"($1 is Ok)": ["future::ready(Option::Some{0: $1.as:Ok.0})"], "($1 is Err)": ["future::ready(Option::None{})"]})
    ctx.check("with_reconnect_backoff", okf, "failed attempts deliver nothing (result.ok())", key="drop-errors")
    rt = wb.return_term()
    shape = len(fm) == 1 and rt == fm[0] and fm[0][2][0][0] == "call" and fm[0][2][0][1].endswith("StreamExt::scan") and \
        render(fm[0][2][0][2][0]) == "StreamExt::enumerate(self)"
    ctx.check("with_reconnect_backoff", shape, "the stream returned is filter_map(scan(enumerate(self), state, closure)) - every init result "
              "passes through the backoff closure exactly once, nothing else is added or removed", got=render(rt)[:200], key="returned-unfiltered")
    # state arithmetic
    fr = ctx.ibody(ctx.find(name="from", self_adt=STATE))
    rt = fr.return_term()
    f = {k: render(v) for k, v in zip(rt[2], rt[3])} if rt[0] == "agg" else {}
    ctx.check("ReconnectionState::from", f.get("backoff_ms_current") == "policy.backoff_ms_initial" and f.get("policy") == "policy",
              "starts at the configured initial backoff", got=f, key="initial")
    rb = ctx.fibody(name="reset_backoff", self_adt=STATE, trait="")
    st = [(render(s[2]), render(s[3])) for s in rb.stores()]
    ctx.check("ReconnectionState::reset_backoff", st == [("self.backoff_ms_current", "self.policy.backoff_ms_initial")], "reset to initial", got=st, key="reset")
    mbk = ctx.fibody(name="multiply_backoff", self_adt=STATE, trait="")
    st = mbk.stores()
    okm = len(st) == 1 and render(st[0][2]) == "self.backoff_ms_current"
    if okm:
        try:
            cur, mul, mx = sympy.symbols("cur mul mx")

            def sym(t):
                r = render(t)
                return {"self.backoff_ms_current": cur, "self.policy.backoff_multiplier": mul, "self.policy.backoff_ms_max": mx}.get(r)
            e = formula.to_sympy(ctx.facts, st[0][3], sym=sym)
            okm = formula.equal(e, sympy.Min(cur * mul, mx))
        except formula.NotAFormula:
            okm = False
    ctx.check("ReconnectionState::multiply_backoff", okm, "current := min(current * multiplier, max)", got=[render(s[3]) for s in st], key="multiply")
    gsf = ctx.fibody(name="generate_sleep_future", self_adt=STATE, trait="")
    ctx.check("ReconnectionState::generate_sleep_future", render(gsf.return_term()) == "time::sleep(Duration::from_millis(self.backoff_ms_current))",
              "sleeps for the current backoff", got=render(gsf.return_term()), key="sleep")
    ctx.check("ReconnectionState::generate_sleep_future", not gsf.stores() and not [1 for bi, t, tm in gsf.real_calls() if gsf.mut_args(t)],
              "generating the sleep does not itself change the backoff (one multiplication per failed attempt)",
              got=[render(tm)[:100] for bi, t, tm in gsf.real_calls() if gsf.mut_args(t)], key="sleep-pure")
    ws = [w for w in whomay.writers_of(ctx.facts, STATE, "backoff_ms_current") if not common.is_test(ctx.facts, w[0]) and w[2] != "construct"]
    owners = sorted(set(mir.short(whomay.owner_fn(w[0])) for w in ws))
    ctx.check("ReconnectionState.backoff_ms_current", owners == ["ReconnectionState::multiply_backoff", "ReconnectionState::reset_backoff"],
              "only reset_backoff and multiply_backoff assign the current backoff", got=owners, key="writers")
    for fn, n_want in (("multiply_backoff", 1), ("reset_backoff", 1)):
        tgt = ctx.find(name=fn, self_adt=STATE, trait="")
        cs = [(d, bi, sp) for d, bi, sp in common.lib_callers(ctx.facts, tgt)]
        # (a call from a private helper no rule names is a call from the helper's own call site(s))
        cs = [(o, bi, sp) for d, bi, sp in cs for o in (common.effective_owners(ctx.facts, d) if "with_reconnect_backoff" not in d else [d])]
        ctx.check("ReconnectionState::%s" % fn, len(cs) == n_want and all("with_reconnect_backoff" in d for d, _, _ in cs),
                  "called from exactly one site, inside with_reconnect_backoff", sites=[sp for _, _, sp in cs],
                  got=[mir.short(whomay.owner_fn(d)) for d, _, _ in cs], key="callers")
    ctx.floor("backoff checks", 6, 6)


def _term_table(ctx, cb, subject="$1"):
    tab = {}
    for g, term, bi in cb.expanded_cases(0):
        for conj in g:
            key = []
            for a in sorted(conj, key=repr):
                if a[0] == "is" and render(a[1]).startswith(subject):
                    key.append("%s=%s" % (render(a[1])[len(subject):] or "_", "|".join(sorted(a[2]))))
                elif a[0] == "bool" and a[1][0] == "call":
                    key.append("%s=%s" % (mir.short(a[1][1]).split("::")[-1], a[2]))
                else:
                    key.append("?" + mir.render_atom(a)[:50])
            tab[",".join(sorted(key))] = render(term)
    return tab


def r2(ctx):
    w = ctx.find(name="with_termination_on_error", trait=RS)
    leaf = None
    for d in _closure_defs(ctx, w):
        if ctx.facts.bodies[d]["kind"] == "closure" and ctx.ibody(d).locals[0]["ty"].startswith("std::option::Option<std::result::Result<"):
            leaf = ctx.ibody(d)
    if leaf is None:
        raise Exception("map_while closure not found")
    tab = _term_table(ctx, leaf)
    want = {"_=Ok": "Option::Some{0: Result::Ok{0: $1.as:Ok.0}}", "_=Err,call_once=True": None, "_=Err,call_once=False": None}
    norm = {}
    for k, v in tab.items():
        kk = k.replace("is_terminal", "terminal").replace("call=", "terminal=").replace("call_once=", "terminal=").replace("Fn::call=", "terminal=")
        norm[kk] = v
    ok = norm.get("_=Ok") == "Option::Some{0: Result::Ok{0: $1.as:Ok.0}}" and \
        any(k.startswith("_=Err") and k.endswith("=True") and v == "Option::None{}" for k, v in norm.items()) and \
        any(k.startswith("_=Err") and k.endswith("=False") and v == "Option::Some{0: Result::Err{0: $1.as:Err.0}}" for k, v in norm.items()) and len(norm) == 3
    ctx.check("with_termination_on_error", ok, "items pass; a terminal error ends the connection's stream; other errors are passed through",
              got=norm, key="table")
    wb = ctx.ibody(w)
    mw = [tm for bi, t, tm in wb.real_calls() if tm[1].endswith("StreamExt::map")]
    ctx.check("with_termination_on_error", len(mw) == 1 and render(mw[0][2][0]) == "self", "applied to every connection", got=[render(x)[:100] for x in mw], key="per-connection")
    ctx.check("with_termination_on_error", len(mw) == 1 and wb.return_term() == mw[0], "and returned as it is (no further adapter)",
              got=render(wb.return_term())[:160], key="returned-unfiltered")


def r3(ctx):
    w = ctx.find(name="with_reconnection_events", trait=RS)
    EV = "barter_data::streams::reconnect::Event"
    sites = []
    for d in [w] + _closure_defs(ctx, w):
        b = ctx.ibody(d)
        for blk in b.blocks:
            if blk["cleanup"] or blk["i"] not in b.reachable:
                continue
            for s in blk["stmts"]:
                rv = s.get("rv")
                if rv and rv["r"] == "agg" and rv["kind"].get("adt") == EV and rv["kind"].get("variant") == "Reconnecting":
                    sites.append((d, s["sp"]))
    ctx.check("with_reconnection_events", len(sites) == 1, "the Reconnecting notice is constructed at exactly one place", got=sites, key="one-site")
    wb = ctx.ibody(w)
    mp = [tm for bi, t, tm in wb.real_calls() if tm[1].endswith("StreamExt::map")]
    fl = [tm for bi, t, tm in wb.real_calls() if tm[1].endswith("StreamExt::flatten")]
    ok = len(mp) == 1 and len(fl) == 1 and fl[0][2][0] == mp[0] and render(mp[0][2][0]) == "self"
    ctx.check("with_reconnection_events", ok, "every connection is mapped and the result flattened in order", got=[render(x)[:100] for x in mp + fl], key="map-flatten")
    ctx.check("with_reconnection_events", ok and wb.return_term() == fl[0],
              "the flattened stream is returned as it is (nothing filters or reorders items / notices afterwards)",
              got=render(wb.return_term())[:200], key="returned-unfiltered")
    if not ok:
        return
    cb, _ = mir.closure_body(ctx.facts, mp[0][2][1])
    rt = cb.return_term()
    okc = rt[0] == "call" and rt[1].endswith("StreamExt::chain") and len(rt[2]) == 2
    first, second = (rt[2] if okc else (None, None))
    okc = okc and first[0] == "call" and first[1].endswith("StreamExt::map") and render(first[2][0]) == "$1" and "Event::Item" in render(first[2][1])
    okc = okc and second[0] == "call" and second[1].endswith("stream::once") and \
        render(second[2][0]) == "future::ready(Event::Reconnecting{0: ^origin})"
    ctx.check("with_reconnection_events", bool(okc),
              "per connection: its own items (as Event::Item) chained with exactly one Reconnecting(origin) AFTER them",
              got=render(rt)[:260], key="chain-once")


def r4(ctx):
    w = ctx.find(name="with_error_handler", trait=RS)
    leaf = None
    for d in _closure_defs(ctx, w):
        b = ctx.ibody(d)
        if ctx.facts.bodies[d]["kind"] == "closure" and b.locals[0]["ty"].startswith("std::future::Ready<std::option::Option<"):
            leaf = b
    if leaf is None:
        raise Exception("filter_map closure not found")
    rt = leaf.return_term()
    inner = None
    # ready(phi(...)) - expand the phi through its defining arms
    ph = [s for s in mir.subterms(rt) if s[0] == "phi" and len(s) > 2 and s[2] is not None]
    tab = {}
    if ph:
        for g, term, bi in leaf.local_cases(ph[0][2]):
            for conj in g:
                key = []
                for a in sorted(conj, key=repr):
                    if a[0] == "is" and render(a[1]).startswith("$1"):
                        key.append("%s=%s" % (render(a[1])[2:] or "_", "|".join(sorted(a[2]))))
                    else:
                        key.append("?" + mir.render_atom(a)[:50])
                tab[",".join(sorted(key))] = render(term)
    want = {"_=Reconnecting": "Option::Some{0: Event::Reconnecting{0: $1.as:Reconnecting.0}}",
            ".as:Item.0=Ok,_=Item": "Option::Some{0: Event::Item{0: $1.as:Item.0.as:Ok.0}}",
            ".as:Item.0=Err,_=Item": "Option::None{}"}
    ctx.check("with_error_handler", tab == want, "notices and items pass; errors are removed from the stream", got=tab, want=want, key="table")
    wbody = ctx.ibody(w)
    fms = [tm for bi, t, tm in wbody.real_calls() if tm[1].endswith("StreamExt::filter_map")]
    ctx.check("with_error_handler", len(fms) == 1 and wbody.return_term() == fms[0] and render(fms[0][2][0]) == "self",
              "the stream returned is filter_map(self, handler closure) and nothing else", got=render(wbody.return_term())[:160], key="returned-unfiltered")
    ops = [(bi, t, tm) for bi, t, tm in leaf.real_calls() if tm[1].endswith(("Fn::call", "FnOnce::call_once", "FnMut::call_mut"))]
    ok = len(ops) == 1 and "as:Item.0.as:Err.0" in render(ops[0][2]) and \
        all(any(a[0] == "is" and a[2] == frozenset(["Err"]) for a in conj) for conj in leaf.guard(ops[0][0]))
    ctx.check("with_error_handler", ok, "each error is handed to the handler exactly once (in the Err arm only)", got=[render(x[2])[:120] for x in ops], key="handler")


def r5(ctx):
    ds = [d for d in ctx.facts.bodies if d.startswith("barter_data::streams::reconnect::stream::init_reconnecting_stream") and d.endswith("::{closure#0}")
          and ctx.facts.bodies[d]["kind"] == "coroutine"]
    if len(ds) != 1:
        raise Exception("init_reconnecting_stream coroutine not found")
    b = ctx.ibody(ds[0])
    oks = [t for g, t, bi in b.expanded_cases(0) if render(t).startswith("Result::Ok")]
    ok = len(oks) == 1
    r = render(oks[0]) if ok else ""
    ok = ok and r.startswith("Result::Ok{0: StreamExt::chain(stream::once(future::ready(Result::Ok{0: ") and \
        "StreamExt::then(stream::repeat_with(^init_stream), fn:convert::identity)" in r
    ctx.check("init_reconnecting_stream", ok, "the first connection, then endlessly repeated re-initialisation, in that order", got=r[:300], key="once-chain-repeat")
    m = ctx.ibody(ctx.find(path="barter_integration::stream::merge::merge"))
    r = render(m.return_term())
    subs = [render(x) for x in mir.subterms(m.return_term())]
    marker = "StreamExt::chain(StreamExt::map(%s, fn:v1::Some), stream::once(future::ready(Option::None{})))"
    ok = (marker % "left") in subs and (marker % "right") in subs and \
        any(x.startswith("StreamExt::map_while(") and x.endswith(", fn:convert::identity)") and (marker % "left") in x and (marker % "right") in x for x in subs)
    ctx.check("merge", ok, "merge = Some-wrapped inputs each chained with a None marker, merged, cut at the first None",
              got=r[:300], key="shape")
    fw = ctx.find(name="forward_to", trait=RS)
    fb = ctx.ibody(fw)
    r = render(fb.return_term())
    ok = r.startswith("StreamExt::collect(StreamExt::map_while(self, closure:")
    cbok = False
    for d in _closure_defs(ctx, fw):
        cb = ctx.ibody(d)
        snd = "Tx::send(^tx, Into::into($1))"
        # (the Ok payload of `send` is `()`: `Some(send_result_payload)` and `Some(())` are the same value)
        if common.case_table(cb) in ({"(%s is Err)" % snd: ["Option::None{}"], "(%s is Ok)" % snd: ["Option::Some{0: %s.as:Ok.0}" % snd]},
                                     {"(%s is Err)" % snd: ["Option::None{}"], "(%s is Ok)" % snd: ["Option::Some{0: tuple{}}"]}) and \
                [render(tm) for bi, t, tm in cb.real_calls() if cb.guard(bi) == frozenset([frozenset()])] == ["Into::into($1)", snd]:
            cbok = True
    ctx.check("forward_to", ok and cbok, "forwards every item, in order, until the receiver is gone", got=r[:200], key="forward")
    # ... and the channel the items are forwarded into is tokio's, unadorned
    common.channel_passthrough(ctx)


RULES = [
    ("R1", "backoff: reset on success; on failure sleep(current) generated before multiply, awaited before the (dropped) error; arithmetic", r1),
    ("R2", "termination table: terminal error ends the connection, others pass", r2),
    ("R3", "exactly one Reconnecting notice per connection, chained after its items", r3),
    ("R4", "error-handler table", r4),
    ("R5", "init_reconnecting_stream / merge / forward_to shapes", r5),
]
