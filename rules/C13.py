"""C13 - market-data messages are attributed to the subscribed instrument, or rejected."""
import re

from sa import atoms, mir, whomay
from sa.mir import render, render_guard
from rules import common

EXPLANATION = (
    "Tables and role rules over MIR: StatelessTransformer::transform outcome table (no id -> nothing, known id -> events "
    "built from (Exchange::ID, that entry's key, the input), unknown id -> Unidentifiable error); WebSocketSubMapper "
    "pairs each subscription's own id with that subscription's own instrument key; writer/reader agreement of channel "
    "CONSTANTS between the subscription side (Identifier<Channel> for Subscription<Exchange,_,Kind>) and the message "
    "side (code reachable from the message's Deserialize / Identifier impls) for every connector whose message side "
    "uses a constant; field roles in every From<(ExchangeId, InstrumentKey, Msg)> conversion (exchange <- tuple.0, "
    "instrument <- tuple.1, time <- a time field, price/amount/side/bid/ask from same-role fields, never crossed); every "
    "arm of the dynamic stream builder instantiates init_market_stream with the connector whose ID is the arm's exchange "
    "and the arm's kind, and forwards to that kind's channel."
)
NOT_DECIDED = ["agreement of market-name strings (case, separators)",
               "channels read from the payload at run time (OKX, Gate.io, BitMEX, Bitfinex, Kraken trades)"]
ASSUMPTIONS = ["serde derive dispatches to the `deserialize_with` functions named in the attributes"]
TECHNIQUE = "outcome tables, writer/reader constant agreement over the call graph, field-role provenance tables"

EVENT_KIND = {"PublicTrade": "PublicTrades", "OrderBookL1": "OrderBooksL1", "OrderBookEvent": "OrderBooksL2", "Liquidation": "Liquidations"}
KIND_FIELD = {"PublicTrades": "trades", "OrderBooksL1": "l1s", "OrderBooksL2": "l2s", "Liquidations": "liquidations"}


def r1(ctx):
    ST = "barter_data::transformer::stateless::StatelessTransformer"
    b = ctx.fibody(name="transform", self_adt=ST, trait="barter_integration::Transformer")
    tab = {}
    for g, term, bi in b.expanded_cases(0):
        for conj in g:
            key = []
            for a in sorted(conj, key=repr):
                if a[0] == "is" and a[1][0] == "call" and a[1][1].endswith("Identifier::id") and render(a[1][2][0]) == "input":
                    key.append("id=" + "|".join(sorted(a[2])))
                elif a[0] == "is" and a[1][0] == "call" and a[1][1].endswith("::find"):
                    key.append("find=" + "|".join(sorted(a[2])))
                else:
                    key.append("?" + mir.render_atom(a)[:80])
            tab[",".join(sorted(key))] = render(term)
    find = "Map::find(self.instrument_map, Identifier::id(input).as:Some.0)"
    want = {"id=None": "Vec::new()",
            "find=Ok,id=Some": "From::from(tuple{0: barter_data::exchange::Connector::ID<Exchange>, 1: %s.as:Ok.0, 2: input}).0" % find,
            "find=Err,id=Some": "vec{Result::Err{0: DataError::from(%s.as:Err.0)}}" % find}
    norm = {k: (v if not v.startswith("vec{}") else "Vec::new()") for k, v in tab.items()}
    norm = {k: ("Vec::new()" if v in ("vec{}", "Vec::new()") else v) for k, v in norm.items()}
    ctx.check("StatelessTransformer::transform", norm == want,
              "no id -> nothing; subscribed id -> events built from (Exchange::ID, the key stored under that id, the message); "
              "unknown id -> Unidentifiable error (never an event for another instrument)", got=norm, want=want, key="table")
    fm = ctx.fibody(name="find", self_adt="barter_data::subscription::Map", trait="")
    look = [render(tm) for bi, t, tm in fm.real_calls() if mir._strip_generics(tm[1]).endswith("HashMap::get")]
    ctx.check("Map::find", look == ["HashMap::get(self.0, id)"], "keyed lookup of the given subscription id", got=look, key="keyed")


def r2(ctx):
    WM = "barter_data::subscriber::mapper::WebSocketSubMapper"
    m = ctx.find(name="map", self_adt=WM, trait="barter_data::subscriber::mapper::SubscriptionMapper")
    views = [v for v in common.elementwise_views(ctx, m) if any("HashMap::insert(" in c[0] for c in v["calls"])]
    ok = len(views) == 1 and views[0]["complete"]
    ins = [c for c in views[0]["calls"] if c[0].startswith("HashMap::insert(")] if ok else []
    ok = ok and len(ins) == 1 and ins[0][1] == "true" and \
        ins[0][0].endswith(", Identifier::id(ExchangeSub::new($x)), InstrumentData::key($x.instrument))")
    ctx.check("WebSocketSubMapper::map", ok,
              "each subscription contributes exactly one entry: (the id derived from that subscription, that subscription's own instrument key), "
              "unconditionally", sites=[v["site"] for v in views], got=[c[0][-120:] for c in ins], key="pairing")
    ctx.check("WebSocketSubMapper::map", len(views) == 1 and views[0]["source"] == "subscriptions" and views[0]["yields"] == ["ExchangeSub::new($x)"],
              "every subscription is mapped, and yields its own exchange subscription", got=[(v["source"], v["yields"]) for v in views], key="all")


def _channel_consts(ctx, d):
    """channel constants mentioned in body d"""
    out = set()
    b = ctx.ibody(d)
    terms = [b.return_term()] + [b.call_term(t, bi) for bi, t in b.iter_calls()]
    for tm in terms:
        for sub in mir.subterms(tm):
            if sub[0] == "const" and sub[2].endswith("Channel") and "::" in sub[1] and "Channel::" in sub[1]:
                out.add(sub[1].split("<")[0])
    return out


def _reach(ctx, roots, depth=4):
    seen = set()
    frontier = list(roots)
    for _ in range(depth):
        nxt = []
        for d in frontier:
            if d in seen or d not in ctx.facts.bodies:
                continue
            seen.add(d)
            rec = ctx.facts.bodies[d]
            for blk in rec["blocks"]:
                t = blk["term"]
                if t and t["t"] == "call" and "def" in t["f"]:
                    c = mir.callee_path(t["f"])
                    if c and c.startswith("barter_data::") and c not in seen:
                        nxt.append(c)
                for s in blk["stmts"]:
                    rv = s.get("rv")
                    if rv and rv["r"] == "agg" and rv["kind"].get("def"):
                        nxt.append(rv["kind"]["def"])
                    for o in (whomay._operands(rv) if rv else []):
                        if "k" in o and "fn" in o["k"]:
                            nxt.append(mir.callee_path(o["k"]["fn"]))
        frontier = nxt
    return seen


def _conversions(ctx):
    out = []
    for d, r in sorted(ctx.facts.bodies.items()):
        if r.get("name") == "from" and "MarketIter<" in (r.get("impl_self") or "") and r["kind"] == "assoc_fn" and \
                "std::convert::From<(barter_instrument::exchange::ExchangeId, InstrumentKey, " in (r.get("impl_trait_ref") or ""):
            msg = r["impl_trait_ref"].split("ExchangeId, InstrumentKey, ", 1)[1]
            msg = msg[:msg.rindex(")>")]
            event = r["impl_self"].rsplit("::", 1)[-1].rstrip(">")
            out.append((d, msg, event))
    return out


def r3(ctx):
    # subscription side: (exchange module, kind) -> constant
    sub = {}
    for d, r in ctx.facts.bodies.items():
        if r.get("name") == "id" and (r.get("impl_self") or "").startswith("barter_data::subscription::Subscription<") and \
                (r.get("impl_trait") or "").endswith("Identifier") and "Channel" in (r.get("impl_trait_ref") or ""):
            cs = _channel_consts(ctx, d)
            kind = r["impl_self"].rsplit("::", 1)[-1].rstrip(">")
            m = re.search(r"barter_data::exchange::(\w+)::", r["impl_trait_ref"])
            if m and len(cs) == 1:
                sub.setdefault((m.group(1), kind), set()).update(cs)
    ctx.floor("subscription-side channel constants", len(sub), 11)
    n = 0
    for d, msg, event in _conversions(ctx):
        kind = EVENT_KIND.get(event)
        m = re.match(r"barter_data::exchange::(\w+)::", msg)
        if not m or not kind:
            continue
        ex = m.group(1)
        # message-side: code reachable from Deserialize / Identifier impls of the ADTs named in the message type
        adts = set(re.findall(r"barter_data::exchange::[\w:]+", msg))
        roots = []
        for dd, rr in ctx.facts.bodies.items():
            if rr["kind"] != "assoc_fn":
                continue
            it = rr.get("impl_trait") or ""
            if rr.get("impl_self_adt") in adts and (it.endswith("Deserialize") or it.endswith("Identifier")) and rr.get("name") in ("deserialize", "id"):
                roots.append(dd)
        reach = set()
        for root in roots:
            # nested derive helpers live under the root's def path
            pre = root.split("#")[0]
            reach |= {x for x in ctx.facts.bodies if pre in x}
        reach = _reach(ctx, reach, 4)
        consts = set()
        for x in reach:
            consts |= _channel_consts(ctx, x)
        if not consts:
            continue  # the channel is read from the payload at run time: not decided here
        n += 1
        want = sub.get((ex, kind), set())
        ctx.check("%s:%s" % (msg[len("barter_data::exchange::"):][:70], kind), consts == want and len(want) == 1,
                  "the channel constant used to build the id of an incoming message equals the constant the subscription for "
                  "(%s, %s) is registered under" % (ex, kind), got=sorted(consts), want=sorted(want), key="channel")
    ctx.floor("message types whose id is built from a channel constant", n, 7)


ROLE = {
    "price": (r"price|rate|px", r"amount|size|quantity|qty|volume"),
    "amount": (r"amount|size|quantity|qty|volume", r"price|rate|px"),
    "side": (r"side|maker|taker|direction", None),
    "best_bid": (r"bid", r"ask"),
    "best_ask": (r"ask", r"bid"),
}
TIME_RE = r"time|timestamp|ts"


def _leaves(term):
    """access paths rooted in the message (param tuple field 2, or a closure parameter)"""
    out = []
    for s in mir.subterms(term):
        if s[0] == "proj" and s[1][0] in ("param", "cparam", "upvar"):
            out.append(s)
    # keep maximal paths only
    rs = [render(x) for x in out]
    return [x for x in out if not any(r2 != render(x) and r2.startswith(render(x) + ".") for r2 in rs)]


def _role_ok(term, role):
    want, forbid = ROLE[role]
    names = []
    for lf in _leaves(term):
        nm = ".".join(e for e in lf[2] if not e.isdigit() and not e.startswith("as:"))
        names.append(nm)
    if not names:
        # a side decided by a branch (e.g. from the sign of the amount): only Side constants, no field to cross
        if role == "side" and all(x[0] != "agg" or "::Side::" in x[1] for x in mir.subterms(term) if x[0] in ("agg",)):
            return True, ["(branch on Side constants)"]
        return False, names
    ok = all(re.search(want, n.split(".")[-1] if role not in ("best_bid", "best_ask") else n, re.I) for n in names)
    if forbid:
        ok = ok and not any(re.search(forbid, n.split(".")[-1] if role not in ("best_bid", "best_ask") else n, re.I) for n in names)
    return ok, names


def r4(ctx):
    n = 0
    for d, msg, event in _conversions(ctx):
        short = msg[len("barter_data::exchange::"):][:80]
        b = ctx.ibody(d)
        bodies = [(d, None)]
        for cd in ctx.facts.bodies:
            if cd.startswith(d + "::{closure#"):
                bodies.append((cd, d))
        events = []
        for bd, parent in bodies:
            bb = ctx.ibody(bd)
            terms = [bb.return_term()] + [bb.call_term(t, bi) for bi, t in bb.iter_calls()]
            for tm in terms:
                for s in mir.subterms(tm):
                    if s[0] == "agg" and s[1].endswith("event::MarketEvent::MarketEvent") and (bd, s) not in [(x[0], x[1]) for x in events]:
                        events.append((bd, s, bb))
        if not events:
            # delegating conversion: must forward the tuple fields in order
            fw = [tm for bi, t, tm in b.real_calls() if tm[1].endswith("::from") and tm[2] and tm[2][0][0] == "agg" and tm[2][0][1] == "tuple"]
            ok = bool(fw) and all(render(x[2][0][3][0]) == "arg1.0" and render(x[2][0][3][1]) == "arg1.1" for x in fw)
            n += 1
            ctx.check(short, ok, "a delegating conversion forwards (exchange, instrument) unchanged", got=[render(x)[:120] for x in fw], key="delegates")
            continue
        n += 1
        for bd, ev, bb in events:
            f = dict(zip(ev[2], ev[3]))

            def up(t):
                if bd != d:
                    # closure: map upvars back into the parent
                    agg = None
                    for blk in b.blocks:
                        for s in blk["stmts"]:
                            rv = s.get("rv")
                            if rv and rv["r"] == "agg" and rv["kind"].get("def") == bd:
                                agg = b.rvalue_term(rv)
                    if agg is not None:
                        return mir.in_closure(ctx.facts, agg, t)
                return t
            ex_t, in_t = render(up(f["exchange"])), render(up(f["instrument"]))
            ctx.check(short, ex_t == "arg1.0", "event.exchange is the exchange id handed to the conversion", got=ex_t, key="exchange")
            ctx.check(short, in_t == "arg1.1", "event.instrument is the instrument key the transformer looked up for this message", got=in_t, key="instrument")
            te = f["time_exchange"]
            lv = _leaves(te)
            okt = bool(lv) and all(re.search(TIME_RE, x[2][-1], re.I) for x in lv)
            ctx.check(short, okt, "event.time_exchange comes from the message's time field", got=render(te)[:120], key="time")
            kind = f["kind"]
            ks = [s for s in mir.subterms(kind) if s[0] == "agg" and s[1].startswith("adt:barter_data::subscription::")]
            for k in ks:
                kf = dict(zip(k[2], k[3]))
                for role in ("price", "amount", "side", "best_bid", "best_ask"):
                    if role in kf:
                        ok, names = _role_ok(kf[role], role)
                        if role in ("best_bid", "best_ask"):
                            # an optional side built under a branch: the CONDITION must also read this side's own fields
                            # (`if ask_price.is_zero() { None } else { Some(bid level) }` drops / invents a side)
                            for ph in [x for x in mir.subterms(kf[role]) if x[0] == "phi" and len(x) > 2 and x[2] is not None]:
                                for g, t_, bi_ in bb.local_cases(ph[2]):
                                    for conj in g:
                                        for a in conj:
                                            nms = [x for x in (".".join(e for e in lf[2] if not e.isdigit() and not e.startswith("as:"))
                                                               for lf in _leaves(a[1])) if x]   # '' = a test of the message's own variant
                                            if nms:
                                                want_re, forbid_re = ROLE[role]
                                                # .. and, as in every sibling conversion (Binance L1, Kraken L1), an empty side is the
                                                # one whose PRICE is zero: a side with a stated price is never dropped because of its amount
                                                ok = ok and all(re.search(want_re, x, re.I) for x in nms) and not any(re.search(forbid_re, x, re.I) for x in nms) \
                                                    and all(re.search(ROLE["price"][0], x.split(".")[-1], re.I) for x in nms)
                                                names = names + ["(condition) " + x for x in nms]
                        ctx.check("%s:%s.%s" % (short, k[1].rsplit("::", 1)[-1], role), ok,
                                  "`%s` is filled from message fields of the same role (never crossed)" % role,
                                  got=names or render(kf[role])[:120], key="role")
                if "last_update_time" in kf:
                    lv2 = _leaves(kf["last_update_time"])
                    ctx.check("%s:last_update_time" % short, bool(lv2) and all(re.search(TIME_RE, x[2][-1], re.I) for x in lv2),
                              "book time from the message's time field", got=render(kf["last_update_time"])[:100], key="time")
            # Level{price, amount} inside best_bid / best_ask
            for s in mir.subterms(kind):
                if s[0] == "agg" and s[1].endswith("books::Level::Level"):
                    lf = dict(zip(s[2], s[3]))
                    for role in ("price", "amount"):
                        if role in lf and _leaves(lf[role]):
                            ok, names = _role_ok(lf[role], role)
                            ctx.check("%s:Level.%s" % (short, role), ok, "level %s from a %s field" % (role, role), got=names, key="level-role")
    ctx.floor("conversions checked", n, 16)


def _ids(ctx):
    """connector type string -> ExchangeId variant"""
    server = {}
    conn = {}
    for d, r in ctx.facts.bodies.items():
        if r["kind"] == "assoc_const" and r.get("name") == "ID":
            tr = r.get("impl_trait") or ""
            rt = ctx.ibody(d).return_term()
            val = rt[1].rsplit("::", 1)[-1] if rt[0] == "agg" and "ExchangeId::" in rt[1] else None
            if tr.endswith("ExchangeServer"):
                server[r["impl_self"]] = val
            elif tr.endswith("Connector"):
                conn[r.get("impl_self_adt") or r["impl_self"]] = (val, render(rt))
    return server, conn


def _resolve_id(server, conn, ty):
    adt = mir._strip_generics(ty)
    if adt in conn:
        val, r = conn[adt]
        if val:
            return val
        m = re.search(r"<(.+)>$", ty)
        if m and "ExchangeServer::ID" in r:
            return server.get(m.group(1))
    return None


def r5(ctx):
    server, conn = _ids(ctx)
    ds = [d for d in ctx.facts.bodies if d.startswith("barter_data::streams::builder::dynamic::DynamicStreams::") and "::init::" in d]
    n = 0
    for d in ds:
        rec = ctx.facts.bodies[d]
        if not any(blk["term"] and blk["term"]["t"] == "call" and blk["term"]["f"].get("def", "").endswith("consumer::init_market_stream")
                   for blk in rec["blocks"]):
            continue
        b = ctx.ibody(d)
        closures_by_guard = {}
        for blk in b.blocks:
            if blk["cleanup"] or blk["i"] not in b.reachable:
                continue
            for s in blk["stmts"]:
                rv = s.get("rv")
                if rv and rv["r"] == "agg" and rv["kind"]["k"] == "closure":
                    closures_by_guard.setdefault(_arm(b.guard(blk["i"])), []).append(rv["kind"]["def"])
        for bi, t in b.iter_calls():
            f = t["f"]
            if not f.get("def", "").endswith("consumer::init_market_stream"):
                continue
            arm = _arm(b.guard(bi))
            n += 1
            ex, kind = arm
            ctype, _, kty = f["args"][:3]
            got_id = _resolve_id(server, conn, ctype)
            gk = kty.rsplit("::", 1)[-1]
            name = "DynamicStreams::init:(%s,%s)" % (ex, kind)
            ctx.check(name, got_id == ex, "the arm for exchange %s builds the connector whose Connector::ID is %s" % (ex, ex),
                      sites=[t["sp"]], got={"connector": ctype[-70:], "id": got_id}, key="connector")
            ctx.check(name, gk == kind, "and the subscription kind of the arm", sites=[t["sp"]], got=gk, key="kind")
            fields = set()
            for cd in closures_by_guard.get(arm, []):
                for dd in [cd] + [x for x in ctx.facts.bodies if x.startswith(cd + "::{closure#")]:
                    if dd not in ctx.facts.bodies:
                        continue
                    cb = ctx.ibody(dd)
                    for _, _, tm in cb.real_calls():
                        if mir._strip_generics(tm[1]).endswith("::get") and tm[2] and tm[2][0][0] == "proj":
                            fields.add(tm[2][0][2][-1])
            ctx.check(name, fields == {KIND_FIELD.get(kind)}, "events are forwarded to the channel of the arm's kind",
                      got=sorted(fields), want=KIND_FIELD.get(kind), key="channel")
    ctx.floor("dynamic builder arms", n, 21)


def _arm(g):
    ex = kind = None
    for conj in g:
        for a in conj:
            if a[0] == "is" and len(a[2]) == 1:
                r = render(a[1])
                if r.endswith("exchange"):
                    ex = next(iter(a[2]))
                elif r.endswith("sub_kind"):
                    kind = next(iter(a[2]))
    return (ex, kind)


ID_TABLE = {
    # message type -> {case: id} of its `Identifier<Option<SubscriptionId>>` accessor (frozen from the tree, one line of reason each:
    # the id is the message's own deserialised subscription id - built by the de_* helper from the channel constant and the
    # market stated in the message (R3) - or the id of the wrapped payload, handed out VERBATIM; non-data frames have none)
    "binance::book::l1::BinanceOrderBookL1": {"true": ["Option::Some{0: self.subscription_id}"]},
    "binance::futures::l2::BinanceFuturesOrderBookL2Update": {"true": ["Option::Some{0: self.subscription_id}"]},
    "binance::futures::liquidation::BinanceLiquidation": {"true": ["Option::Some{0: self.order.subscription_id}"]},
    "binance::spot::l2::BinanceSpotOrderBookL2Update": {"true": ["Option::Some{0: self.subscription_id}"]},
    "binance::trade::BinanceTrade": {"true": ["Option::Some{0: self.subscription_id}"]},
    "bitfinex::message::BitfinexMessage": {"(self.payload is Heartbeat)": ["Option::None{}"],
                                           "(self.payload is Trade)": ["Option::Some{0: SubscriptionId::from(ToString::to_string(self.channel_id))}"]},
    "bybit::message::BybitMessage": {"(self is Response)": ["Option::None{}"], "(self is Trade)": ["Option::Some{0: self.as:Trade.0.subscription_id}"]},
    "coinbase::trade::CoinbaseTrade": {"true": ["Option::Some{0: self.subscription_id}"]},
    "kraken::book::l1::KrakenOrderBookL1Inner": {"true": ["Option::Some{0: self.subscription_id}"]},
    "kraken::message::KrakenMessage": {"(self is Event)": ["Option::None{}"], "(self is Data)": ["Identifier::id(self.as:Data.0)"]},
    "kraken::trade::KrakenTradesInner": {"true": ["Option::Some{0: self.subscription_id}"]},
    "okx::trade::OkxMessage": {"true": ["Option::Some{0: self.subscription_id}"]},
}


def r6(ctx):
    """a message for a subscribed market is recognised by its subscription id: the id accessor of every message type hands out the
    id deserialised from the message (or the wrapped payload's id) unchanged - an accessor that rewrites it (case, trimming, another
    field) makes messages of subscribed markets unidentifiable, or attributes them to another subscription"""
    n = 0
    seen = set()
    for d in sorted(ctx.facts.bodies):
        if not (d.endswith("::id") and "Identifier<std::option::Option<barter_integration::subscription::SubscriptionId>>" in d and
                d.startswith("<barter_data::exchange::")):
            continue
        ty = mir._strip_generics(d.split(" as ")[0][len("<barter_data::exchange::"):])
        if ty not in ID_TABLE:
            continue        # other message types (bitmex, gateio: id assembled in the accessor itself) are not decided here
        seen.add(ty)
        tab = common.case_table(ctx.ibody(d))
        n += 1
        ctx.check(ty + "::id", tab == ID_TABLE[ty], "the message's own subscription id (or its payload's), verbatim; none for non-data frames",
                  got=tab, want=ID_TABLE[ty], key="id-verbatim")
    ctx.floor("message id accessors", n, 12)


def r7(ctx):
    """exchange time as stated in the message: the shared timestamp deserialisers turn the stated number into UNIX_EPOCH + exactly that
    duration, in the stated unit, at full precision (a helper that rounds or re-scales shifts `time_exchange` of every connector using it)"""
    want = {"de_u64_epoch_ms_as_datetime_utc": ("Deserialize::deserialize(deserializer)", "Duration::from_millis(%s)"),
            "de_str_u64_epoch_ms_as_datetime_utc": ("de::de_str(deserializer)", "Duration::from_millis(%s)"),
            "de_str_f64_epoch_ms_as_datetime_utc": ("de::de_str(deserializer)", "Duration::from_millis((%s as u64))"),
            "de_str_f64_epoch_s_as_datetime_utc": ("de::de_str(deserializer)", "Duration::from_secs_f64(%s)")}
    n = 0
    for nm, (src, dur) in want.items():
        ds = [x for x in ctx.facts.bodies if mir._strip_generics(x) == "barter_integration::de::" + nm]
        if len(ds) != 1:
            raise Exception("anchor not found: " + nm)
        tab = common.case_table(ctx.ibody(ds[0]))
        exp = {"(%s is Err)" % src: ["Result::Err{0: %s.as:Err.0}" % src],
               "(%s is Ok)" % src: ["Result::Ok{0: From::from(Add::add(std::time::UNIX_EPOCH, %s))}" % (dur % (src + ".as:Ok.0"))]}
        n += 1
        ctx.check("de::" + nm, tab == exp, "Ok(UNIX_EPOCH + the stated value in its stated unit, unrounded); a deserialisation error is passed on",
                  got=tab, want=exp, key="stated-time")
    ctx.floor("timestamp deserialisers", n, 4)


def r8(ctx):
    """the market of a dated contract names the CALENDAR date of its expiry (the connectors' own doc comments: "230526" = 26th of May
    2023; "20230526"): the strftime pattern of every expiry formatter is made of calendar fields only.  An ISO-8601 week-based
    year (%G / %g) next to %m%d names another year for expiries in the days around New Year - the subscription id then belongs to
    a different contract: the subscribed contract's messages become unidentifiable and the other contract's are attributed to it."""
    import re
    n = 0
    for d, r in sorted(ctx.facts.bodies.items()):
        if r.get("test") or not d.startswith("barter_data::exchange::"):
            continue
        for blk in r["blocks"]:
            t = blk["term"]
            if not (t and t["t"] == "call" and "def" in t["f"] and t["f"]["def"].endswith("::format") and "chrono" in t["f"]["def"]):
                continue
            b = ctx.ibody(d)
            tm = b.call_term(t, blk["i"])
            pat = tm[2][-1]
            lit = pat[1].strip('"') if pat[0] == "const" else None
            n += 1
            ok = lit is not None and re.fullmatch(r"(?:%[YymdHMS]|[-_/:T ])+", lit) is not None and \
                (("%m" not in lit and "%d" not in lit) or "%Y" in lit or "%y" in lit)
            ctx.check(mir.short(d), ok, "the date pattern of a contract market uses calendar fields only (%Y/%y %m %d): no ISO week-based year, "
                      "week number or ordinal day", sites=[t["sp"]], got=render(tm)[:160], key="calendar-date")
    ctx.floor("expiry / date formatters of the connectors", n, 2)


RULES = [
    ("R1", "StatelessTransformer::transform outcome table; keyed id lookup", r1),
    ("R2", "mapper pairs each subscription's id with that subscription's instrument key", r2),
    ("R3", "writer/reader agreement of channel constants (subscription side vs message side)", r3),
    ("R4", "field roles in every (ExchangeId, InstrumentKey, Msg) -> MarketEvent conversion", r4),
    ("R5", "dynamic stream builder arms: connector ID, kind and channel per arm", r5),
    ("R6", "message id accessors hand out the deserialised subscription id verbatim", r6),
    ("R7", "shared timestamp deserialisers: UNIX_EPOCH + the stated value, stated unit, full precision", r7),
    ("R8", "contract markets name the calendar date of the expiry (no ISO week-based year in the date pattern)", r8),
]
