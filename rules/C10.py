"""C10 - the audit stream is gap-free and sufficient to replicate engine state."""
import sympy

from sa import atoms, formula, mir, whomay
from sa.mir import render, render_guard
from rules import common

EXPLANATION = (
    "Path rules on the two audited runners (sync fn and async coroutine, pre-transform MIR): every tick produced by "
    "process_with_audit reaches exactly one audit_tx.send before the next event is processed or the runner returns - "
    "the in-loop send on the non-terminal branch, the post-loop send for the terminal / feed-ended tick - and the two "
    "runners perform the same call sequence (sibling check); process_with_audit = audit(process(event)) once; the "
    "sequence number is post-incremented by one with Auditor::audit as the only caller; every audit returned by "
    "Engine::process is built from the event parameter; per event variant the replica reaches the same state-mutating "
    "callees as the engine (sibling cross-check over the call graph); replica admission (skip <=, reject gaps) "
    "dominates every replica update; the snapshot is taken from the engine before it is moved into its runner."
)
NOT_DECIDED = ["state equality after every tick (follows from the mirror rule if user data processors are deterministic)",
               "delivery by the audit channel"]
ASSUMPTIONS = ["tokio mpsc FIFO delivery", "user GlobalData/InstrumentData processors are deterministic"]
TECHNIQUE = "must-pass-through / exactly-once path rules on pre-transform coroutine MIR; sibling call-graph cross-check"

ENG = "barter::engine::Engine"
SRM = "barter::engine::audit::state_replica::StateReplicaManager"


def _reach_avoiding(b, frm, targets, avoid):
    """blocks of `targets` (or EXIT as -1) reachable from the successors of `frm` without entering `avoid`"""
    hit = set()
    seen = set()
    stack = [y for _, y in b.succ[frm]]
    while stack:
        x = stack.pop()
        if x in seen:
            continue
        seen.add(x)
        if x in targets:
            hit.add(x)
            continue
        if x == mir.EXIT or x in avoid:
            continue
        stack.extend(y for _, y in b.succ[x])
    return hit


def _runner(ctx, defn, label):
    b = ctx.ibody(defn)
    calls = b.real_calls()
    P = [(bi, t, tm) for bi, t, tm, _e, _ev in common.processing_sites(calls)]
    S = [(bi, t, tm) for bi, t, tm in calls if mir.short(tm[1]) == "ChannelTxDroppable::send"]
    FE = [(bi, t, tm) for bi, t, tm in calls if tm[1].endswith("Auditor::audit") and "FeedEnded" in render(tm)]
    ok = len(P) == 1 and len(S) == 2 and len(FE) == 1
    ctx.check(label, ok, "one process_with_audit site, two audit sends (in-loop and final), one feed-ended audit",
              got=(len(P), len(S), len(FE)), key="shape")
    # the runner only SENDS into the caller's audit channel: it never disables / replaces it (a second run on the same channel
    # would otherwise process events without emitting a single record)
    other = sorted(set(mir.short(tm[1]) for bi, t, tm in calls if tm[2] and render(tm[2][0]) in ("audit_tx", "^audit_tx") and b.mut_args(t)
                       and mir.short(tm[1]) != "ChannelTxDroppable::send"))
    st = [render(x[2]) for x in b.stores() if render(x[2]).startswith(("audit_tx", "^audit_tx"))]
    ctx.check(label, not other and not st, "the audit channel handed to the runner is only sent into, never disabled or overwritten",
              got={"calls": other, "stores": st}, key="channel-kept")
    if not ok:
        return None
    p = P[0]
    loop_send = [s for s in S if s[2][2][1] == p[2]]
    final_send = [s for s in S if s not in loop_send]
    ok = len(loop_send) == 1 and len(final_send) == 1
    ctx.check(label, ok, "the in-loop send forwards the tick just produced; the other send is the final one",
              got=[render(s[2])[:160] for s in S], key="sends")
    if not ok:
        return None
    ls, fs = loop_send[0], final_send[0]
    # exactly-once: from P, without passing a send, neither the next P nor the exit is reachable
    hit = _reach_avoiding(b, p[0], {p[0], mir.EXIT}, {ls[0], fs[0]})
    ctx.check(label, not hit, "no tick is dropped: after an event is processed an audit send is passed before the next "
              "event is processed and before the runner returns", sites=[p[1]["sp"]],
              got=["next event" if h == p[0] else "return" for h in hit], key="no-gap")
    # the in-loop send is taken exactly on the non-terminal branch
    g = b.guard(ls[0])
    term_atoms = [a for conj in g for a in conj if a[0] == "bool" and a[1][0] == "call" and a[1][1].endswith("Terminal::is_terminal")]
    okg = bool(term_atoms) and all(a[2] is False and render(a[1][2][0]) == render(p[2]) + ".event" for a in term_atoms) and \
        all(any(a in conj for a in term_atoms) for conj in g)
    ctx.check(label, okg, "the in-loop send happens exactly when the tick is not terminal (the terminal tick is sent once, after the loop)",
              sites=[ls[1]["sp"]], got=render_guard(g)[:300], key="non-terminal")
    # not sent twice: from the in-loop send, the final send is reachable only through the feed-ended audit or another P
    twice = _reach_avoiding(b, ls[0], {fs[0]}, {p[0], FE[0][0]})
    ctx.check(label, not twice, "a tick already sent in the loop is not sent again by the final send", key="not-twice")
    # the final send: on every path to the return, exactly once, carries the terminal / feed-ended tick
    arg = fs[2][2][1]
    alts = set(render(a) for a in arg[1]) if arg[0] == "phi" else {render(arg)}
    ctx.check(label, alts == {render(p[2]), render(FE[0][2])},
              "the final record is the terminal tick or the feed-ended tick", sites=[fs[1]["sp"]], got=sorted(alts), key="final-record")
    ret_blocks = [x for x in b.reachable if any(y == mir.EXIT and lab == ("ret",) for lab, y in b.succ[x])]
    ctx.check(label, all(b.dominates(fs[0], r) for r in ret_blocks) and fs[0] not in _reach_avoiding(b, fs[0], {fs[0]}, set()),
              "the final send is passed exactly once on every path to the return", key="final-once")
    # which tick does the loop break with? the terminal arm's value is P's result under is_terminal
    pterms = [x[2] for x in P]
    seq = ["engine::process_with_audit" if tm in pterms else mir.short(tm[1]) for bi, t, tm in calls
           if mir.short(tm[1]) in ("engine::process_with_audit", "ChannelTxDroppable::send", "Auditor::audit", "SyncShutdown::shutdown",
                                   "Terminal::is_terminal")]
    return seq


def r1(ctx):
    s1 = _runner(ctx, ctx.find(path="barter::engine::run::sync_run_with_audit"), "sync_run_with_audit")
    s2 = _runner(ctx, ctx.find(path="barter::engine::run::async_run_with_audit::{closure#0}"), "async_run_with_audit")
    ctx.check("sync_run_with_audit~async_run_with_audit", s1 is not None and s1 == s2,
              "both runners perform the same sequence of audit-relevant calls", got=(s1, s2), key="siblings")
    cd = ctx.fibody(name="send", self_adt="barter_integration::channel::ChannelTxDroppable", trait="")
    snd = [(bi, t, tm) for bi, t, tm in cd.real_calls() if tm[1].endswith("Tx::send")]
    ok = len(snd) == 1 and render(snd[0][2][2][1]) == "item" and render(snd[0][2][2][0]) == "self.state.as:Active.0"
    if ok:
        g = cd.guard(snd[0][0])
        ok = len(g) == 1 and [mir.render_atom(a) for a in next(iter(g))] == ["self.state is Active"]
    ctx.check("ChannelTxDroppable::send", ok, "while the audit channel is active every record handed to it is forwarded, unmodified, once",
              got=[(render(x[2]), render_guard(cd.guard(x[0]))) for x in snd], key="forwards")
    b = ctx.ibody(ctx.find(path="barter::engine::process_with_audit"))
    rt = b.return_term()
    ok = render(rt) == "Auditor::audit(engine, Processor::process(engine, event))"
    n = {}
    for bi, t, tm in b.real_calls():
        n[mir.short(tm[1])] = n.get(mir.short(tm[1]), 0) + 1
    ctx.check("process_with_audit", ok and n == {"Processor::process": 1, "Auditor::audit": 1},
              "one audit record per processed event, carrying that event's process output", got=(render(rt), n), key="one-record")


def r2(ctx):
    SEQ = "barter::Sequence"
    b = ctx.fibody(name="fetch_add", self_adt=SEQ, trait="")
    st = b.stores()
    ok = len(st) == 1 and render(st[0][2]) == "self.0"
    ctx.check("Sequence::fetch_add", ok, "one store, to the counter", got=[render(s[2]) for s in st], key="store")
    if ok:
        try:
            e = formula.to_sympy(ctx.facts, st[0][3])
            ok1 = formula.equal(e, sympy.Symbol("self.0") + 1)
        except formula.NotAFormula:
            ok1 = False
        ctx.check("Sequence::fetch_add", ok1, "advances by exactly one", got=render(st[0][3]), key="plus-one")
        # returns the value read before the store
        reads = []
        for blk in b.blocks:
            for si, s in enumerate(blk["stmts"]):
                if "lhs" in s and not s["lhs"]["p"] and s["rv"]["r"] == "use" and render(b.rvalue_term(s["rv"])) == "self":
                    src = s["rv"]["o"].get("c") or s["rv"]["o"].get("m")
                    if src is not None and 1 <= src["l"] <= b.argc:   # a read of the counter's memory itself
                        reads.append((blk["i"], si, s["lhs"]["l"]))
        sb, ss = st[0][0], st[0][1]
        okr = bool(reads) and all((rb == sb and rs < ss) or (rb != sb and b.dominates(rb, sb)) for rb, rs, _ in reads) and \
            render(b.return_term()) == "self"
        ctx.check("Sequence::fetch_add", okr, "returns the pre-increment value (read before the store)", got=(reads, render(b.return_term())),
                  key="returns-old")
    target = ctx.find(name="fetch_add", self_adt=SEQ, trait="")
    cs = common.lib_callers(ctx.facts, target)
    owners = sorted(set(mir.short(whomay.owner_fn(d)) for d, _, _ in cs))
    ctx.check("Sequence::fetch_add", owners == ["Engine::audit"], "the only caller is Auditor::audit", got=owners, key="callers")
    AUD = "barter::engine::audit::Auditor"
    a = ctx.fibody(name="audit", self_adt=ENG, trait=AUD)
    fa = [(bi, t, tm) for bi, t, tm in a.real_calls() if tm[1] == target]
    ctx.check("Engine::audit", len(fa) == 1 and render(fa[0][2][2][0]) == "self.meta.sequence" and
              a.guard(fa[0][0]) == frozenset([frozenset()]), "each audit record draws exactly one sequence number from the engine's own counter",
              got=[render(x[2]) for x in fa], key="one-draw")
    rt = a.return_term()
    # (compared field by field: the declaration order of the fields is not part of the property)
    tick = common.agg_fields(rt, "AuditTick::AuditTick")
    cx = common.agg_fields(rt, "EngineContext::EngineContext")
    ctx.check("Engine::audit", {k: v for k, v in tick.items() if k != "context"} == {"event": "From::from(kind)"} and
              tick.get("context", "").startswith("EngineContext::EngineContext{") and
              cx == {"sequence": "Sequence::fetch_add(self.meta.sequence)", "time": "EngineClock::time(self.clock)"},
              "the record carries exactly the drawn number, the engine clock's time and the given payload", got=render(rt)[:240], key="record")
    s = ctx.fibody(name="audit_snapshot", self_adt=ENG, trait=AUD)
    ctx.check("Engine::audit_snapshot", render(s.return_term()) in ("Auditor::audit(self, self.state)", "Engine::audit(self, self.state)"),
              "the snapshot is an ordinary audit record of the current state (so it consumes the number preceding the first tick)",
              got=render(s.return_term()), key="snapshot")
    # writers of the counter
    ws = [w for w in whomay.writers_of(ctx.facts, SEQ, "0") if not common.is_test(ctx.facts, w[0]) and w[2] != "construct"
          and not common.is_derived(ctx.facts, whomay.owner_fn(w[0]))]
    owners = sorted(set(mir.short(whomay.owner_fn(w[0])) for w in ws))
    ctx.check("Sequence.0", owners == ["Sequence::fetch_add"], "only fetch_add changes a sequence counter", got=owners, key="writers")
    META = "barter::engine::EngineMeta"
    ws = [w for w in whomay.writers_of(ctx.facts, META, "sequence") if not common.is_test(ctx.facts, w[0])
          and not common.is_derived(ctx.facts, whomay.owner_fn(w[0]))]
    # (a private constructor-like helper no rule names counts as the functions that call it)
    owners = sorted(set(mir.short(o) for w in ws for o in common.effective_owners(ctx.facts, w[0])))
    allowed = {"Engine::new", "Engine::reset_metadata", "Engine::audit", "StateReplicaManager::new"}
    ctx.check("EngineMeta.sequence", set(owners) <= allowed, "the engine's sequence is (re)initialised only at construction / reset",
              got=owners, want=sorted(allowed), key="writers")


def r3(ctx):
    P = "barter::engine::Processor"
    b = ctx.ibody(ctx.find(name="process", self_adt=ENG, trait=P))
    n = 0
    for g, term, bi in b.expanded_cases(0):
        for sub in mir.subterms(term):
            if sub[0] == "call" and (mir.short(sub[1]).startswith(("ProcessAudit::with_", "EngineAudit::process"))):
                n += 1
                ctx.check("Engine::process:%s@bb%d" % (mir.short(sub[1]), bi), render(sub[2][0]) == "event",
                          "the audit record is built from the very event being processed", got=render(sub)[:160], key="carries-event")
    ctx.floor("audit constructions in Engine::process", n, 6)
    rets = b.expanded_cases(0)
    bad = [render(t)[:120] for g, t, bi in rets if not any(s[0] == "call" and mir.short(s[1]).startswith(("ProcessAudit::with_", "EngineAudit::process"))
                                                            for s in mir.subterms(t))]
    ctx.check("Engine::process", not bad, "every return value derives from an audit built from the event", got=bad, key="all-returns")


def _mutators(ctx, b, root_pred):
    """{(arm label): set of (callee short, rendered args)} for calls that get &mut into `root`"""
    out = {}
    for bi, t, tm in b.real_calls():
        ok = False
        for i in b.mut_args(t):
            if i < len(tm[2]) and root_pred(tm[2][i]):
                ok = True
        if not ok:
            continue
        arm = []
        for conj in b.guard(bi):
            for a in sorted(conj, key=repr):
                if a[0] == "is" and len(a[2]) == 1:
                    arm.append(next(iter(a[2])))
                else:
                    # anything but a variant match makes the update conditional: surfaces as a different arm label
                    arm.append("if(" + mir.render_atom(a)[:60] + ")")
        out.setdefault("/".join(sorted(set(arm))), set()).add(mir.short(tm[1]))
    return out


def r4(ctx):
    eng = {}
    for fn in ("update_from_trading_state_update", "update_from_account_stream", "update_from_market_stream"):
        b = ctx.fibody(name=fn, self_adt=ENG, trait="")
        m = _mutators(ctx, b, lambda t: render(t).startswith("self.state"))
        for arm, s in m.items():
            eng["%s:%s" % (fn.replace("update_from_", "").replace("_stream", "").replace("_update", ""), arm)] = s
    rep_b = ctx.fibody(name="update_from_event", self_adt=SRM, trait="")
    rep = _mutators(ctx, rep_b, lambda t: "StateReplicaManager::replica_engine_state_mut(self)" in render(t) or render(t).startswith("self.state_replica"))
    want_eng = {
        "trading_state:": {"TradingState::update"},
        "account:Reconnecting": {"ConnectivityStates::update_from_account_reconnecting"},
        "account:Item": {"EngineState::update_from_account"},
        "market:Reconnecting": {"ConnectivityStates::update_from_market_reconnecting"},
        "market:Item": {"EngineState::update_from_market"},
    }
    want_rep = {
        "TradingStateUpdate": {"TradingState::update"},
        "Account/Reconnecting": {"ConnectivityStates::update_from_account_reconnecting"},
        "Account/Item": {"EngineState::update_from_account"},
        "Market/Reconnecting": {"ConnectivityStates::update_from_market_reconnecting"},
        "Item/Market": {"EngineState::update_from_market"},
    }
    # normalise replica arm labels
    rep_n = {}
    for k, v in rep.items():
        parts = set(k.split("/"))
        if "TradingStateUpdate" in parts:
            kk = "trading_state:"
        elif "Account" in parts:
            kk = "account:" + ("Reconnecting" if "Reconnecting" in parts else "Item")
        elif "Market" in parts:
            kk = "market:" + ("Reconnecting" if "Reconnecting" in parts else "Item")
        else:
            kk = k
        rep_n[kk] = rep_n.get(kk, set()) | v
    n = 0
    for k in sorted(want_eng):
        n += 1
        e = eng.get(k, set())
        r = rep_n.get(k, set())
        ctx.check("mirror:" + k, e == want_eng[k], "engine-side state mutators for this event kind", got=sorted(e), want=sorted(want_eng[k]), key="engine")
        ctx.check("mirror:" + k, r == e, "the replica applies the same state-mutating calls as the engine for this event kind",
                  got={"replica": sorted(r), "engine": sorted(e)}, key="replica")
    extra = sorted(set(rep_n) - set(want_eng))
    ctx.check("mirror", not extra, "the replica mutates state for no other event kind", got=extra, key="extra")
    ctx.floor("mirrored event kinds", n, 5)
    # the replica passes the event's own payload
    for bi, t, tm in rep_b.real_calls():
        s = mir.short(tm[1])
        if s in ("EngineState::update_from_account", "EngineState::update_from_market"):
            ctx.check("StateReplicaManager::update_from_event:" + s, "event.as:" in render(tm[2][1]) and render(tm[2][1]).endswith("as:Item.0"),
                      "applied with the audited event's own payload", got=render(tm)[:200], key="payload")


def r5(ctx):
    run = ctx.fibody(name="run", self_adt=SRM, trait="")
    calls = run.real_calls()
    val = [(bi, t, tm) for bi, t, tm in calls if mir.short(tm[1]) == "StateReplicaManager::validate_and_update_context"]
    upd = [(bi, t, tm) for bi, t, tm in calls if mir.short(tm[1]) == "StateReplicaManager::update_from_event"]
    ok = len(val) == 1 and len(upd) == 1
    ctx.check("StateReplicaManager::run", ok, "one validation site, one update site", got=(len(val), len(upd)), key="shape")
    if ok:
        ctx.check("StateReplicaManager::run", run.dominates(val[0][0], upd[0][0]) and val[0][0] != upd[0][0],
                  "every replica update is preceded by sequence validation", key="validated-first")
        g = run.guard(upd[0][0])
        okc = all(any(a[0] == "is" and a[1][0] == "call" and a[1][1].endswith("Try::branch") and a[1][2][0] == val[0][2] and a[2] == frozenset(["Continue"])
                      for a in conj) for conj in g)
        ctx.check("StateReplicaManager::run", okc, "and only happens when validation succeeded (`?`)", got=render_guard(g)[:300], key="validated-ok")
        # once a record is admitted it is always applied: from the validation, every path to the next record or to
        # the return passes update_from_event (except the `?` rejection of an out-of-sequence record)
        rejected = set()
        for x in run.reachable:
            for conj in run.guard(x):
                if any(a[0] == "is" and a[1][0] == "call" and a[1][1].endswith("Try::branch") and a[1][2][0] == val[0][2]
                       and a[2] == frozenset(["Break"]) for a in conj):
                    rejected.add(x)
        heads = {x for x in run.reachable if run.blocks[x]["term"]["t"] == "false_unwind"}
        nxt = {bi for bi, t, tm in calls if tm[1].endswith("Iterator::next") and render(tm[2][0]) == "self.updates"}
        hit = _reach_avoiding(run, val[0][0], heads | nxt | {mir.EXIT}, {upd[0][0]} | rejected)
        ctx.check("StateReplicaManager::run", not hit,
                  "every admitted record is applied to the replica before the next record is read or the run ends "
                  "(including the final / terminal record)", sites=[upd[0][1]["sp"]], got=sorted(hit), key="always-applied")
        gv = run.guard(val[0][0])
        # skip iff replica.seq >= tick.seq
        sk = []
        for conj in gv:
            for a in conj:
                c = atoms.atom_cmp(a)
                if c:
                    sk.append((c[0], render(c[1]), render(c[2])))
        oks = ("lt", "self.state_replica.context.sequence", "Iterator::next(self.updates).as:Some.0.context.sequence") in sk
        ctx.check("StateReplicaManager::run", oks, "a record is applied only if its sequence is greater than the replica's (older/equal: skipped)",
                  got=sk, key="skip-old")
        ctx.check("StateReplicaManager::run", render(upd[0][2][2][1]) == "Iterator::next(self.updates).as:Some.0.event.as:Process.0.event" and
                  render(val[0][2][2][1]) == "Iterator::next(self.updates).as:Some.0.context",
                  "the update applied is the record's own event", got=render(upd[0][2])[:200], key="own-event")
    v = ctx.fibody(name="validate_and_update_context", self_adt=SRM, trait="")
    st = v.stores()
    ok = len(st) == 1 and render(st[0][2]) == "self.state_replica.context" and render(st[0][3]) == "next"
    ctx.check("StateReplicaManager::validate_and_update_context", ok, "stores the new context (only)", got=[(render(s[2]), render(s[3])) for s in st],
              key="store")
    if ok:
        g = v.guard(st[0][0])
        facts_ = []
        for conj in g:
            for a in conj:
                c = atoms.atom_cmp(a)
                if c:
                    facts_.append(c)
        good = False
        for op, l, r in facts_:
            try:
                el = formula.to_sympy(ctx.facts, l)
                er = formula.to_sympy(ctx.facts, r)
                cur, nxt = sympy.Symbol("self.state_replica.context.sequence.0"), sympy.Symbol("next.sequence.0")
                if op == "eq" and (formula.equal(el - er, cur - (nxt - 1)) or formula.equal(el - er, (nxt - 1) - cur)):
                    good = True
            except formula.NotAFormula:
                pass
        ctx.check("StateReplicaManager::validate_and_update_context", good and len(g) == 1,
                  "the context advances only when next.sequence == replica.sequence + 1 (a gap or repeat is rejected)",
                  got=render_guard(g)[:300], key="consecutive")
        errs = [t for gg, t, bi in v.expanded_cases(0) if render(t).startswith("Result::Err")]
        ctx.check("StateReplicaManager::validate_and_update_context", len(errs) == 1, "otherwise an error is returned", got=len(errs), key="rejects")


def r6(ctx):
    ds = [d for d in ctx.facts.bodies if d.startswith("barter::system::builder::SystemBuild::") and d.endswith("::init_internal::{closure#0}")]
    if len(ds) != 1:
        raise Exception("SystemBuild::init_internal coroutine not found: %r" % ds)
    b = ctx.ibody(ds[0])
    snaps = [(bi, t, tm) for bi, t, tm in b.real_calls() if tm[1].endswith("Auditor::audit_snapshot")]
    ctx.check("SystemBuild::init_internal", len(snaps) == 2, "a snapshot is taken in both audited modes", got=len(snaps), key="two-modes")
    spawns = [(bi, t, tm) for bi, t, tm in b.real_calls() if mir.short(tm[1]) in ("Handle::spawn_blocking", "Handle::spawn")
              and any(x[0] == "agg" and x[1].startswith("closure:") and ("engine" in render(x)) for x in tm[2][1:])]
    n = 0
    for sbi, st, stm in snaps:
        arm = frozenset(a for conj in b.guard(sbi) for a in conj)
        mine = [s for s in spawns if b.dominates(sbi, s[0])]
        ok = len(mine) >= 1 and render(stm[2][0]) in ("^self.engine", "mut[audit_snapshot](^self.engine)")
        n += 1
        ctx.check("SystemBuild::init_internal:snapshot@bb%d" % sbi, bool(mine) and ok,
                  "the snapshot is taken from the engine before that engine is moved into its runner task",
                  sites=[st["sp"]] + [m[1]["sp"] for m in mine], got=render(stm), key="before-run")
        # the spawned closure runs the audited runner with the same engine
        for m in mine:
            cl = [x for x in m[2][2][1:] if x[0] == "agg" and x[1].startswith("closure:")]
            names = set()
            for c in cl:
                cd = c[1][len("closure:"):]
                for dd in [cd] + ctx.closures_of(cd):
                    if dd in ctx.facts.bodies:
                        for _, _, tm2 in ctx.ibody(dd).real_calls():
                            names.add(mir.short(tm2[1]))
                            for sub in mir.subterms(tm2):
                                if sub[0] == "agg" and sub[1].startswith("closure:"):
                                    names.add(mir.short(sub[1][8:]))
            ctx.check("SystemBuild::init_internal:snapshot@bb%d" % sbi, any("sync_run_with_audit" in x for x in names),
                      "and that task runs the audited runner", got=sorted(names)[:8], key="audited-runner")
    ctx.floor("audited modes", n, 2)


def r7(ctx):
    """audit record builders keep the event and lose nothing; terminality table"""
    PA = "barter::engine::audit::ProcessAudit"
    EA = "barter::engine::audit::EngineAudit"
    L = common.leaf_role
    pa = "ProcessAudit::ProcessAudit{event: %s, outputs: %s, errors: %s}"
    for adt, fn, ret, what in (
        (PA, "with_event", pa % ("Into::into(event)", "NoneOneOrMany::None{}", "NoneOneOrMany::None{}"), "record of the given event, no output"),
        (PA, "with_output", pa % ("Into::into(event)", "NoneOneOrMany::One{0: Into::into(output)}", "NoneOneOrMany::None{}"), "record of the given event and output"),
        (PA, "add_output", pa % ("self.event", "NoneOneOrMany::extend(self.outputs, NoneOneOrMany::One{0: Into::into(output)})", "self.errors"),
         "adding an output keeps the event, the earlier outputs and the errors"),
        (PA, "add_errors", pa % ("self.event", "self.outputs", "NoneOneOrMany::extend(self.errors, errs)"),
         "adding errors keeps the event, the outputs and the earlier errors"),
        (EA, "process", "EngineAudit::Process{0: ProcessAudit::with_event(event)}", "wraps the event record"),
        (EA, "process_with_output", "EngineAudit::Process{0: ProcessAudit::with_output(event, output)}", "wraps the event+output record"),
        (EA, "process_with_output_and_errs", "EngineAudit::Process{0: " + pa % ("Into::into(event)", "NoneOneOrMany::One{0: Into::into(output)}",
                                                                              "NoneOneOrMany::from_iter(unrecoverable)") + "}", "event, output and all errors"),
        (EA, "with_process_and_err", "EngineAudit::Process{0: ProcessAudit::add_errors(process, unrecoverable)}", "the record plus the errors"),
    ):
        L(ctx, "%s::%s" % (mir.short(adt).split("::")[-1], fn), ctx.fibody(name=fn, self_adt=adt, trait=""),
          "audit record builder: " + what, ret=ret, effects=[], key="builder")
    L(ctx, "EngineAudit::from(ProcessAudit)", _from_process(ctx, EA),
      "conversion keeps the record", ret="EngineAudit::Process{0: value}", effects=[], key="builder")
    # every with_*_update arm keeps the event
    for fn in ("with_trading_state_update", "with_account_update", "with_market_update"):
        b = ctx.fibody(name=fn, self_adt=PA, trait="")
        rt = b.return_term()
        alts = list(rt[1]) if rt[0] == "phi" else [rt]
        bad = [render(a)[:120] for a in alts if not (
            (a[0] == "call" and mir.short(a[1]) in ("ProcessAudit::with_event", "ProcessAudit::with_output") and render(a[2][0]) == "event") or
            (a[0] == "agg" and render(a).startswith("ProcessAudit::ProcessAudit{event: Into::into(event), ")))]
        ctx.check("ProcessAudit::" + fn, len(alts) >= 2 and not bad, "every arm builds the record from the event being processed", got=bad, key="keeps-event")
    t = ctx.fibody(name="is_terminal", self_adt=PA, trait="barter_integration::Terminal")
    tab = sorted((render_guard(g), render(v)) for g, v, bi in t.expanded_cases(0))
    ctx.check("ProcessAudit::is_terminal", tab == [("(!Terminal::is_terminal(self.event))", "Not(NoneOneOrMany::is_empty(self.errors))"),
                                                    ("(Terminal::is_terminal(self.event))", "1")],
              "a record is terminal exactly when its event is terminal or it carries unrecoverable errors", got=tab, key="table")
    t = ctx.fibody(name="is_terminal", self_adt=EA, trait="barter_integration::Terminal")
    tab = sorted((render_guard(g), render(v)) for g, v, bi in t.expanded_cases(0))
    ctx.check("EngineAudit::is_terminal", tab == [("(self is FeedEnded)", "1"), ("(self is Process)", "ProcessAudit::is_terminal(self.as:Process.0)")],
              "FeedEnded is terminal; a Process record defers to the record", got=tab, key="table")
    # (the private accessor may have been inlined away: then the accesses read `self.state_replica.event` directly, which R4 sees)
    acc = ctx.find(name="replica_engine_state_mut", self_adt=SRM, trait="", optional=True)
    if acc:
        L(ctx, "StateReplicaManager::replica_engine_state_mut", ctx.ibody(acc),
          "the replica's state is the one inside the replica's own tick", ret="self.state_replica.event", effects=[], key="view")
    L(ctx, "Sequence::value", ctx.fibody(name="value", self_adt="barter::Sequence", trait=""), "the counter's value", ret="self.0", effects=[], key="view")


def _from_process(ctx, EA):
    ds = [d for d in ctx.facts.bodies if d.startswith("<" + EA) and d.endswith("::from") and "ProcessAudit" in d]
    if len(ds) != 1:
        raise Exception("From<ProcessAudit> for EngineAudit not found: %r" % ds)
    return ctx.ibody(ds[0])


def r8(ctx):
    """'equal once in-flight markers are set aside' relies on what the engine-only markers keep and give back: a cancel-in-flight
    marker holds the order's last exchange-confirmed data (open_meta), which is what the engine falls back to when the cancel is
    rejected - the replica, which never sets the marker, still has it (= C01.R5, C01.R6)"""
    from rules import C01
    C01.r5(ctx)
    C01.r6(ctx)


RULES = [
    ("R1", "runners: each tick is sent exactly once before the next event / return; terminal or feed-ended tick last; siblings agree", r1),
    ("R2", "sequence: post-increment by one, single caller, snapshot via audit, who-may-write the counters", r2),
    ("R3", "every audit returned by Engine::process is built from the event being processed", r3),
    ("R4", "replica mirrors the engine: same state-mutating callees per event kind", r4),
    ("R5", "replica admission: skip old, reject gaps, validation dominates every update", r5),
    ("R6", "the snapshot is taken from the engine before it is moved into the audited runner", r6),
    ("R7", "audit record builders keep the event / outputs / errors; terminality tables; replica state view", r7),
    ("R8", "engine-only in-flight markers keep the last confirmed order data (= C01.R5, C01.R6)", r8),
]
