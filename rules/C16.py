"""C16 - tear-sheet PnL, win rate and profit factor match the closed positions."""
import sympy

from sa import atoms, formula, mir, table, whomay
from sa.mir import render, render_guard
from rules import common

EXPLANATION = (
    "Argument-provenance rule (sympy-normalised call-argument expressions): TearSheetGenerator::generate must hand "
    "WinRate::calculate (total.count - losses.count, total.count) and ProfitFactor::calculate "
    "(total.sum - losses.sum, losses.sum); accumulation rule on PnLReturns::update (pnl_raw += realised PnL; total "
    "updated on every path; losses updated exactly under is_sign_negative(return)); finite decision tables of the two "
    "metric conventions; TearSheet field provenance; pairing of key and generator in the per-instrument/asset maps."
)
NOT_DECIDED = ["decimal values themselves", "ratios other than PnL / win rate / profit factor"]
ASSUMPTIONS = [
               "rust_decimal operator impls are the arithmetic operators"]

TSG = "barter::statistic::summary::instrument::TearSheetGenerator"
PNL = "barter::statistic::summary::pnl::PnLReturns"


def _sym(t):
    r = render(t)
    if r.startswith("self.pnl_returns."):
        return sympy.Symbol(r[len("self.pnl_returns."):].replace(".", "_"))
    return None


def r1(ctx):
    b = ctx.fibody(name="generate", self_adt=TSG, trait="")
    tc, lc, ts, ls = sympy.symbols("total_count losses_count total_sum losses_sum")
    want = {
        "WinRate::calculate": [("wins", tc - lc), ("total", tc)],
        "ProfitFactor::calculate": [("profits_gross_abs", ts - ls), ("losses_gross_abs", ls)],
    }
    calls = b.real_calls()
    for name, exp in want.items():
        cs = [(bi, t, term) for bi, t, term in calls if mir.short(term[1]) == name]
        ctx.check("TearSheetGenerator::generate:" + name, len(cs) == 1, "called exactly once", got=len(cs), key="once")
        for bi, t, term in cs:
            cb = ctx.ibody(term[1])
            pnames = [cb.param_name(i) for i in range(1, cb.argc + 1)]
            ctx.check("TearSheetGenerator::generate:" + name, pnames == [p for p, _ in exp], "callee parameter roles",
                      got=pnames, want=[p for p, _ in exp], key="params")
            for i, (pname, w) in enumerate(exp):
                try:
                    e = formula.to_sympy(ctx.facts, term[2][i], sym=_sym)
                    # the callee takes absolute values of both arguments: sign-insensitive comparison
                    ok = formula.equal(e, w) or formula.equal(e, -w)
                    got = str(e)
                except formula.NotAFormula as ex:
                    ok, got = False, "not a formula: %s" % ex
                ctx.check("TearSheetGenerator::generate:%s:%s" % (name, pname), ok,
                          "argument must equal %s" % w, sites=[t["sp"]], got=got, want=str(w), key="arg")


def r2(ctx):
    b = ctx.fibody(name="update", self_adt=PNL, trait="")
    calls = b.real_calls()
    ret = [term for bi, t, term in calls if mir.short(term[1]) == "position::calculate_pnl_return"]
    ctx.check("PnLReturns::update", len(ret) == 1 and [render(a) for a in ret[0][2]] ==
              ["position.pnl_realised", "position.price_entry_average", "position.quantity_abs_max"],
              "return = calculate_pnl_return(pnl_realised, price_entry_average, quantity_abs_max) of the closed position",
              got=[render(x) for x in ret], key="return")
    if len(ret) != 1:
        return
    r = ret[0]
    cb = ctx.ibody(r[1])
    ctx.check("calculate_pnl_return", [cb.param_name(i) for i in range(1, cb.argc + 1)] ==
              ["pnl_realised", "price_entry_average", "quantity_abs_max"], "parameter roles", key="params")
    cases = cb.expanded_cases(0)
    ok = len(cases) == 1
    got = [render(c[1]) for c in cases]
    if ok:
        pr, pe, qm = sympy.symbols("pnl_realised price_entry_average quantity_abs_max")
        try:
            e = formula.to_sympy(ctx.facts, cases[0][1])
            ok, got = formula.equal(e, pr / (pe * qm)), str(e)
        except formula.NotAFormula as ex:
            ok, got = False, "not a formula: %s" % ex
    ctx.check("calculate_pnl_return", ok, "the return of a closed position is pnl_realised / (price_entry_average * quantity_abs_max), "
              "for every input (no clamping, no special cases)", got=got, key="formula")
    eff = common.effects(b, lambda p: atoms.mentions_param(p, "self"))
    seen = {}
    for e in eff:
        seen.setdefault(render(e["path"]), []).append(e)
    # pnl_raw
    es = seen.get("self.pnl_raw", [])
    ok = (len(es) == 1 and es[0]["kind"] == "mutcall" and es[0]["callee"] == "std::ops::AddAssign::add_assign"
          and render(es[0]["args"][1]) == "position.pnl_realised" and b.guard(es[0]["bi"]) == frozenset([frozenset()]))
    ctx.check("PnLReturns::update:pnl_raw", ok, "pnl_raw += position.pnl_realised, unconditionally",
              sites=[e["sp"] for e in es], got=[e["what"] for e in es], key="sum")
    # total
    es = seen.get("self.total", [])
    ok = (len(es) == 1 and es[0]["kind"] == "mutcall" and mir.short(es[0]["callee"]) == "DataSetSummary::update"
          and es[0]["args"][1] == r and b.guard(es[0]["bi"]) == frozenset([frozenset()]))
    ctx.check("PnLReturns::update:total", ok, "total.update(return) on every path", sites=[e["sp"] for e in es],
              got=[(e["what"], render_guard(b.guard(e["bi"]))) for e in es], key="total")
    # losses
    es = seen.get("self.losses", [])
    ok = len(es) == 1 and es[0]["kind"] == "mutcall" and mir.short(es[0]["callee"]) == "DataSetSummary::update" and es[0]["args"][1] == r
    if ok:
        g = b.guard(es[0]["bi"])
        ok = (len(g) == 1 and len(next(iter(g))) == 1)
        if ok:
            a = next(iter(next(iter(g))))
            ok = (a[0] == "bool" and a[2] is True and a[1][0] == "call" and a[1][1].endswith("Decimal::is_sign_negative")
                  and a[1][2][0] == r)
    ctx.check("PnLReturns::update:losses", ok, "losses.update(return) exactly when the return is negative",
              sites=[e["sp"] for e in es], got=[(e["what"], render_guard(b.guard(e["bi"]))) for e in es], key="losses")
    others = sorted(k for k in seen if k not in ("self.pnl_raw", "self.total", "self.losses"))
    ctx.check("PnLReturns::update", not others, "nothing else is mutated", got=others, key="others")


def _classify(term):
    r = render(term)
    if r == "Option::None{}":
        return "None"
    if r.startswith("FromResidual::from_residual("):
        return "None(div-overflow)"
    return r


def r3(ctx):
    # WinRate::calculate
    b = ctx.fibody(name="calculate", self_adt="barter::statistic::metric::win_rate::WinRate", trait="")
    cases = [(common.untry_guard(b, g), common.drop_never(common.untry(b, t)), bi) for g, t, bi in formula.return_cases(b)]
    cases = [c for c in cases if c[0]]

    def val_wr(cell):
        def v(a):
            if a[0] == "bool":
                c = atoms.cmp_term(a[1])
                if c and c[0] == "eq" and {render(c[1]), render(c[2])} == {"total", "rust_decimal::Decimal::ZERO"}:
                    return (cell["total"] == "zero") == a[2]
            # `checked_div(..)?` / `.map(..)` / `match`: all read as a test of the division's own Option
            if a[0] == "is" and a[1][0] == "call" and a[1][1].endswith("checked_div"):
                return ("Some" in a[2]) == (cell["div"] == "ok")
            return None
        return v
    oracle = {("zero", "ok"): "None", ("zero", "overflow"): "None",
              ("nonzero", "ok"): "Option::Some{0: WinRate::WinRate{value: arithmetic_impls::checked_div(Decimal::abs(wins), Decimal::abs(total)).as:Some.0}}",
              ("nonzero", "overflow"): "None"}
    _table(ctx, "WinRate::calculate", cases, {"total": ["zero", "nonzero"], "div": ["ok", "overflow"]}, val_wr,
           lambda c: oracle[(c["total"], c["div"])])

    # ProfitFactor::calculate
    b = ctx.fibody(name="calculate", self_adt="barter::statistic::metric::profit_factor::ProfitFactor", trait="")
    cases = []
    for g, term, bi in formula.return_cases(b):
        phis = [t for t in mir.subterms(term) if t[0] == "phi" and len(t) > 2 and t[2] is not None]
        if phis:
            l = phis[0][2]
            for g2, t2, bi2 in b.local_cases(l):
                # the arm's guard is the conjunction of reaching the return and of the defining arm;
                # defining arms flow into the single return, so their guards refine it
                cases.append((g2, mir.subst(term, lambda x: t2 if x == phis[0] else None), bi2))
        else:
            cases.append((g, term, bi))
    cases = [(common.untry_guard(b, g), common.drop_never(common.untry(b, t)), bi) for g, t, bi in cases]
    cases = [c for c in cases if c[0]]

    def val_pf(cell):
        def v(a):
            if a[0] == "bool" and a[1][0] == "call" and a[1][1].endswith("Decimal::is_zero"):
                who = render(a[1][2][0])
                if who == "profits_gross_abs":
                    return (cell["profits"] == "zero") == a[2]
                if who == "losses_gross_abs":
                    return (cell["losses"] == "zero") == a[2]
            if a[0] == "is" and a[1][0] == "call" and a[1][1].endswith("checked_div"):
                return ("Some" in a[2]) == (cell["div"] == "ok")
            return None
        return v
    div = "arithmetic_impls::checked_div(Decimal::abs(profits_gross_abs), Decimal::abs(losses_gross_abs)).as:Some.0"

    def oracle_pf(c):
        if c["profits"] == "zero" and c["losses"] == "zero":
            return "None"
        if c["losses"] == "zero":
            return "Option::Some{0: ProfitFactor::ProfitFactor{value: rust_decimal::Decimal::MAX}}"
        if c["profits"] == "zero":
            return "Option::Some{0: ProfitFactor::ProfitFactor{value: rust_decimal::Decimal::MIN}}"
        if c["div"] == "overflow":
            return "None"
        return "Option::Some{0: ProfitFactor::ProfitFactor{value: %s}}" % div
    _table(ctx, "ProfitFactor::calculate", cases,
           {"profits": ["zero", "nonzero"], "losses": ["zero", "nonzero"], "div": ["ok", "overflow"]}, val_pf, oracle_pf)


def _table(ctx, name, cases, space, valuation, oracle):
    n = 0
    for cell in table.cells(space):
        n += 1
        try:
            active = sorted(set(_classify(term) for g, term, bi in cases if table.eval_guard(g, valuation(cell))))
        except table.UnknownAtom as ex:
            ctx.check("%s:%s" % (name, _cellname(cell)), False,
                      "the function branches on a condition outside the declared abstraction (fail closed)",
                      got=str(ex), key="unknown-atom")
            continue
        # a div-overflow residual is only meaningful in cells where the division is evaluated
        want = oracle(cell)
        ctx.check("%s:%s" % (name, _cellname(cell)), active == [want],
                  "documented convention for this input class", got=active, want=[want], key="cell")
    return n


def _cellname(cell):
    return ",".join("%s=%s" % kv for kv in sorted(cell.items()))


def r4(ctx):
    b = ctx.fibody(name="generate", self_adt=TSG, trait="")
    rt = b.return_term()
    ok = rt[0] == "agg" and rt[1].endswith("TearSheet::TearSheet")
    ctx.check("TearSheetGenerator::generate", ok, "returns a TearSheet literal", got=render(rt)[:200], key="shape")
    if not ok:
        return
    f = dict(zip(rt[2], rt[3]))
    ctx.check("TearSheet.pnl", render(f.get("pnl", ("const", "?", ""))) == "self.pnl_returns.pnl_raw",
              "TearSheet.pnl is the accumulated realised PnL", got=render(f["pnl"]) if "pnl" in f else None, key="pnl")
    wr = f.get("win_rate")
    pf = f.get("profit_factor")
    ctx.check("TearSheet.win_rate", wr is not None and wr[0] == "call" and mir.short(wr[1]) == "WinRate::calculate",
              "TearSheet.win_rate is the WinRate::calculate result", got=render(wr) if wr else None, key="win_rate")
    ctx.check("TearSheet.profit_factor", pf is not None and pf[0] == "call" and mir.short(pf[1]) == "ProfitFactor::calculate",
              "TearSheet.profit_factor is the ProfitFactor::calculate result", got=render(pf) if pf else None, key="profit_factor")


def r5(ctx):
    TS = "barter::statistic::summary::TradingSummaryGenerator"
    init = ctx.find(name="init", self_adt=TS, trait="")
    b = ctx.ibody(init)
    rt = b.return_term()
    f = dict(zip(rt[2], rt[3])) if rt[0] == "agg" else {}
    want = {
        "instruments": ("IndexMap::values(instruments.0)", "tuple{0: $1.instrument.name_internal, 1: $1.tear_sheet}"),
        "assets": ("IndexMap::iter(assets.0)", "tuple{0: $1.0, 1: $1.1.statistics}"),
    }
    loop_forms = {}
    for field, (src, pair) in want.items():
        t = f.get(field)
        ok = False
        got = render(t) if t else None
        if t and t[0] == "call" and t[1].endswith("Iterator::collect") and t[2][0][0] == "call" and t[2][0][1].endswith("Iterator::map"):
            m = t[2][0]
            cb, _ = mir.closure_body(ctx.facts, m[2][1])
            got = (render(m[2][0]), render(cb.return_term()) if cb else None)
            ok = got == (src, pair)
        elif t and t[0] == "mutated":
            # loop form: an empty map filled by one complete loop over the same source with one unconditional insert per
            # element - `insert(table, key, value)` is the pair
            from rules import common_idx as _ci
            kind = "Instrument" if field == "instruments" else "Asset"
            loop_forms[field] = _ci._loop_fill(ctx, b, init, t, kind)
            vs = [v for v in common.elementwise_views(ctx, init) if v["kind"] == "loop" and v["complete"] and
                  any(c[0].startswith("IndexMap::insert(" + render(t)) for c in v["calls"])]
            if loop_forms[field] and len(vs) == 1:
                ins = [c for c in vs[0]["calls"] if c[0].startswith("IndexMap::insert(" + render(t))]
                kv = pair.replace("$1", "$x")[len("tuple{0: "):-1].replace(", 1: ", ", ")
                got = (vs[0]["source"], [c[0][len("IndexMap::insert(" + render(t)) + 2:-1] for c in ins])
                # (`.iter()` is transparent, `.values()` is not: the element of `values()` is the value, of `iter()` the pair)
                ok = len(ins) == 1 and ins[0][1] == "true" and got[1] == [kv] and \
                    vs[0]["source"] == (src if field == "instruments" else src[len("IndexMap::iter("):-1])
        ctx.check("TradingSummaryGenerator::init:" + field, ok,
                  "each entry pairs an entity's own name with that same entity's own statistics generator",
                  got=got, want=(src, pair), key="pairing")
    # the maps are accessed positionally by InstrumentIndex / AssetIndex (InstrumentTearSheetManager): nothing may reorder them
    from rules import common_idx
    for blk in b.blocks:
        for st in blk["stmts"]:
            rv = st.get("rv")
            if rv and rv["r"] == "agg" and rv["kind"].get("adt") == TS:
                for fld in ("instruments", "assets"):
                    i = rv["kind"]["fields"].index(fld)
                    muts = common_idx._local_mutators(b, rv["ops"][i])
                    if loop_forms.get(fld):
                        muts = [m_ for m_ in muts if not m_[0].endswith("::insert")]   # the verified fill loop itself
                    ctx.check("TradingSummaryGenerator::init:" + fld, not muts,
                              "the per-entity table keeps the engine's index order (it is looked up by position)",
                              sites=[x[1] for x in muts], got=[x[0] for x in muts], key="order-kept")
    gen = ctx.find(name="generate", self_adt=TS, trait="")
    b = ctx.ibody(gen)
    rt = b.return_term()
    f = dict(zip(rt[2], rt[3])) if rt[0] == "agg" else {}
    want = {
        "instruments": ("IndexMap::iter_mut(self.instruments)", "tuple{0: $1.0, 1: TearSheetGenerator::generate($1.1, self.risk_free_return, interval)}"),
        "assets": ("IndexMap::iter_mut(self.assets)", "tuple{0: $1.0, 1: TearSheetAssetGenerator::generate($1.1)}"),
    }
    for field, (src, pair) in want.items():
        t = f.get(field)
        ok = False
        got = render(t) if t else None
        if t and t[0] == "call" and t[1].endswith("Iterator::collect") and t[2][0][0] == "call" and t[2][0][1].endswith("Iterator::map"):
            m = t[2][0]
            cb, _ = mir.closure_body(ctx.facts, m[2][1])
            got = (render(m[2][0]), render(mir.in_closure(ctx.facts, m[2][1], cb.return_term())) if cb else None)
            ok = got == (src, pair)
        ctx.check("TradingSummaryGenerator::generate:" + field, ok,
                  "each reported tear sheet is generated from the generator stored under that very key",
                  got=got, want=(src, pair), key="pairing")
    common.summary_forwarders(ctx)
    # a closed position updates the tear sheet of its own InstrumentState
    common.instrument_feeds_own(ctx)
    # TearSheetGenerator::update_from_position feeds pnl_returns with that record
    b = ctx.fibody(name="update_from_position", self_adt=TSG, trait="")
    cs = [(bi, t, term) for bi, t, term in b.real_calls() if mir.short(term[1]) == "PnLReturns::update"]
    ok = len(cs) == 1 and [render(a) for a in cs[0][2][2]] == ["self.pnl_returns", "position"] and \
        b.guard(cs[0][0]) == frozenset([frozenset()])
    ctx.check("TearSheetGenerator::update_from_position", ok, "pnl_returns.update(position) on every path",
              got=[render(c[2]) for c in cs], key="feeds-pnl")


def _fields(ctx, adt):
    a = ctx.facts.adts.get(adt)
    if not a or a["kind"] != "struct":
        return None
    return [(f["name"], f["ty"]) for f in a["variants"][0]["fields"]]


def _resets_whole(ctx, fn, adt, depth=2):
    """`fn(&mut self: adt, ..)` overwrites ALL of `*self`, unconditionally: one store of the whole value, or every field stored /
    handed to a function that itself resets that field whole.  Returns (bool, fields not covered)"""
    b = ctx.ibody(fn)
    fields = _fields(ctx, adt)
    if fields is None:
        return False, ["?"]
    covered = set()
    for st in b.stores():
        if b.guard(st[0]) != frozenset([frozenset()]):
            continue
        r = render(st[2])
        if r == "self":
            return True, []
        if r.startswith("self.") and "." not in r[5:]:
            covered.add(r[5:])
    if depth > 0:
        for bi, t, tm in b.real_calls():
            if tm[1] in ctx.facts.bodies and tm[2] and b.guard(bi) == frozenset([frozenset()]):
                r = render(tm[2][0])
                for name, ty in fields:
                    if r == "self." + name and ty in ctx.facts.adts and _resets_whole(ctx, tm[1], ty, depth - 1)[0]:
                        covered.add(name)
    missing = [n for n, ty in fields if n not in covered]
    return not missing, missing


def r6(ctx):
    """lifetime of the recorded history: the accumulators are only ever accumulated (by the update functions checked above) or
    replaced as a whole - a function that rewrites SOME of them leaves the others describing a different history"""
    accum = {PNL: {"barter::statistic::summary::pnl::PnLReturns::update"}}
    n = 0
    for adt, accepted in accum.items():
        owners = {}
        for name, ty in _fields(ctx, adt):
            for d, bi, kind, sp in whomay.writers_of(ctx.facts, adt, name):
                if kind != "construct" and not common.is_test(ctx.facts, d):
                    # (a private helper no rule names is read as part of the functions that call it - `update` split in two)
                    for o in common.effective_owners(ctx.facts, d):
                        owners.setdefault(o, set()).add(name)
        n += len(owners)
        for o, written in sorted(owners.items()):
            if o in accepted:
                continue
            whole, missing = _resets_whole(ctx, o, adt) if o in ctx.facts.bodies and ctx.ibody(o).param_name(1) == "self" else (False, ["?"])
            ctx.check(mir.short(o), whole, "writes %s of %s in place: it must then overwrite ALL of it (missing: the fields it leaves "
                      "behind keep describing the old history)" % (sorted(written), mir.short(adt)), got={"left behind": missing}, key="partial-write")
    # TearSheetGenerator::reset starts a new history: everything recorded so far is dropped
    rs = ctx.find(name="reset", self_adt=TSG, trait="")
    whole, missing = _resets_whole(ctx, rs, TSG)
    ctx.check("TearSheetGenerator::reset", whole, "reset overwrites the whole generator (nothing of the old history survives)",
              got={"left behind": missing}, key="reset-whole")
    b = ctx.ibody(rs)
    st = [(render(x[2]), render(x[3])) for x in b.stores() if render(x[2]) == "self"]
    if st:
        ctx.check("TearSheetGenerator::reset", st == [("self", "TearSheetGenerator::init(time_engine_start)")],
                  "the new generator is the initial one for the given start time", got=st, key="reset-init")
    ctx.floor("in-place writers of PnLReturns", n, 1)


def r7(ctx):
    """win rate and profit factor are ratios of `count` and `sum` of the two return summaries: those must be the running count and
    sum of EVERY value fed to them (= C17.R2) - a fast path that returns before `sum += value` skews the profit factor"""
    from rules import C17
    C17.r2(ctx)


RULES = [
    ("R1", "WinRate/ProfitFactor argument provenance in TearSheetGenerator::generate", r1),
    ("R2", "PnLReturns::update accumulation: pnl_raw, total on every path, losses iff negative", r2),
    ("R3", "decision tables of WinRate::calculate and ProfitFactor::calculate conventions", r3),
    ("R4", "TearSheet field provenance (pnl, win_rate, profit_factor)", r4),
    ("R5", "per-entity maps keep key and generator of the same entity together", r5),
    ("R6", "recorded history is accumulated or replaced whole: no partial in-place rewrite; reset drops everything", r6),
    ("R7", "the return summaries' count and sum take in every value (= C17.R2)", r7),
]
