"""C03 - order requests: sent => delivered once and in flight; refused/failed => neither."""
from sa import atoms, mir, whomay
from sa.mir import render, render_guard
from rules import common, common_idx, common_send

EXPLANATION = (
    "Provenance + path rules: send_request returns Ok exactly under `tx.send(..) is Ok`, sends exactly once, the request "
    "itself, on the transmitter found for the request's own exchange, with the documented error classes (R1); "
    "send_requests partitions (request | request+error) about the same request (R2); at every one of the 7 library "
    "send sites the `.sent` half - and nothing else - is recorded in flight exactly once on every path with the "
    "recorder of the matching kind (R3); risk-refused requests never reach a send (R4); generate_algo_orders has a "
    "single caller, control-dependent on TradingState::Enabled read after the event-specific update, commands are "
    "actioned regardless, Shutdown/fatal returns precede generation (R5); who-may-deliver table for the execution "
    "channel (R6); a missing link (index out of range or empty slot) is an error (R7)."
)
NOT_DECIDED = ["that the tokio channel hands the item to the receiver exactly once", "user strategy hooks",
               "conversion of the `find` error by `?` (From impl) is trusted to be the unrecoverable class"]
ASSUMPTIONS = ["itertools partition_result: Ok -> left, Err -> right", "tokio mpsc semantics"]
TECHNIQUE = "provenance (sent-half only), dominance/post-dominance, control-dependence gate, who-may-call"

ENG = common_send.ENG
SR = common_send.SR


def r1(ctx):
    b = ctx.fibody(name="send_request", self_adt=ENG, trait=SR)
    sends = [(bi, t, tm) for bi, t, tm in b.real_calls() if tm[1].endswith("Tx::send")]
    ok = len(sends) == 1
    ctx.check("Engine::send_request", ok, "exactly one delivery attempt", got=len(sends), key="one-send")
    if not ok:
        return
    bi, t, tm = sends[0]
    tx, item = tm[2]
    ctx.check("Engine::send_request", render(tx) == "Try::branch(ExecutionTxMap::find(self.execution_txs, request.key.exchange)).as:Continue.0",
              "delivered on the link found for the request's own exchange", sites=[t["sp"]], got=render(tx), key="link")
    ctx.check("Engine::send_request", render(item) == "From::from(request)", "the item delivered is the request itself",
              sites=[t["sp"]], got=render(item), key="item")
    ctx.check("Engine::send_request", not any(b.blocks[x]["i"] == bi for x in ()) and not _in_loop(b, bi), "not in a loop", key="no-loop")
    cases = b.expanded_cases(0)
    oks = [(g, term) for g, term, _ in cases if render(term).startswith("Result::Ok")]
    good = len(oks) == 1
    if good:
        g = oks[0][0]
        good = len(g) == 1 and any(a[0] == "is" and a[1] == tm and a[2] == frozenset(["Ok"]) for a in next(iter(g)))
    ctx.check("Engine::send_request", good, "reports `sent` exactly when the channel accepted the item",
              got=[render_guard(g)[:200] for g, _ in oks], key="ok-iff-accepted")
    # error table
    tab = {}
    for g, term, _ in cases:
        r = render(term)
        if r.startswith("Result::Ok"):
            continue
        cls = "Unrecoverable" if "EngineError::Unrecoverable" in r else ("Recoverable" if "EngineError::Recoverable" in r else
                                                                         ("residual(find)" if r.startswith("FromResidual::from_residual") else "?"))
        for conj in g:
            key = []
            for a in sorted(conj, key=repr):
                if a[0] == "is" and a[1][0] == "call" and a[1][1].endswith("Try::branch"):
                    key.append("find=" + "|".join(sorted(a[2])))
                elif a[0] == "is" and a[1] == tm:
                    key.append("send=" + "|".join(sorted(a[2])))
                elif a[0] == "bool" and a[1][0] == "call" and a[1][1].endswith("is_unrecoverable"):
                    key.append("unrecoverable=%s" % a[2])
                else:
                    key.append("?" + mir.render_atom(a)[:60])
            tab[",".join(sorted(key))] = cls
    want = {"find=Break": "residual(find)", "find=Continue,send=Err,unrecoverable=True": "Unrecoverable",
            "find=Continue,send=Err,unrecoverable=False": "Recoverable"}
    ctx.check("Engine::send_request", tab == want, "failed deliveries are reported with the documented error class",
              got=tab, want=want, key="error-table")
    # the `?` on a missing link converts into the unrecoverable class
    fr = [d for d, r in ctx.facts.bodies.items() if r.get("name") == "from" and r.get("impl_self_adt") == "barter::error::EngineError"
          or (r.get("name") == "from" and (r.get("impl_self") or "").endswith("engine::error::EngineError"))]
    conv = {}
    for d in fr:
        r = ctx.facts.bodies[d]
        if "UnrecoverableEngineError" in (r.get("impl_trait_ref") or ""):
            conv[d] = render(ctx.ibody(d).return_term())
    ctx.check("EngineError::from(UnrecoverableEngineError)", len(conv) == 1 and list(conv.values())[0].startswith("EngineError::Unrecoverable{0: "),
              "a missing execution link (find error) surfaces as an unrecoverable engine error", got=conv, key="fatal-conversion")


def _in_loop(b, bi):
    seen, stack = set(), [y for _, y in b.succ[bi] if y != mir.EXIT]
    while stack:
        x = stack.pop()
        if x == bi:
            return True
        if x in seen:
            continue
        seen.add(x)
        stack.extend(y for _, y in b.succ[x] if y != mir.EXIT)
    return False


def r2(ctx):
    """per request: exactly one send_request(self, that request); Ok -> that very request joins `sent`, Err(e) -> (that very
    request, e) joins `errors`; nothing filtered, added or re-ordered.  Decided on the per-element view, so the iterator
    pipeline (`map(..).partition_result()`) and an explicit loop pushing into two vectors are the same mechanism."""
    d = ctx.find(name="send_requests", self_adt=ENG, trait=SR)
    b = ctx.ibody(d)
    rt = b.return_term()
    ok = rt[0] == "agg" and rt[1].endswith("SendRequestsOutput::SendRequestsOutput")
    f = dict(zip(rt[2], rt[3])) if ok else {}

    def strip(x):
        return x[2][0] if x and x[0] == "call" and x[1].endswith("::from") and len(x[2]) == 1 else x
    s_, e_ = strip(f.get("sent")), strip(f.get("errors"))
    send = "Engine::send_request(self, $x)"
    got = None
    okp = False
    if ok and s_ and e_ and s_[0] == "proj" and e_[0] == "proj" and s_[2] == ("0",) and e_[2] == ("1",) and s_[1] == e_[1] \
            and s_[1][0] == "call" and s_[1][1].endswith("partition_result"):
        # pipeline form: one map over the requests, split by partition_result
        mp = s_[1][2][0]
        if mp[0] == "call" and mp[1].endswith("Iterator::map") and render(common.strip_iter(mp[2][0])) == "requests" and mp[2][1][0] == "agg":
            cdef = mp[2][1][1][len("closure:"):]
            cb = ctx.ibody(cdef)
            X = ("const", "$x", "?")

            def tr(t):
                return mir.subst(mir.in_closure(ctx.facts, mp[2][1], t), lambda q: X if q == ("cparam", 1) else None)
            tab = {}
            for g, t, bi in cb.expanded_cases(0):
                g2 = frozenset(frozenset((a[0], tr(a[1])) + tuple(a[2:]) for a in conj) for conj in g)
                tab[common.canon_guard(g2)] = render(tr(t))
            calls = [render(tr(tm)) for bi, t, tm in cb.real_calls() if mir.short(tm[1]) == "Engine::send_request"]
            got = {"form": "pipeline", "table": tab, "sends": calls}
            okp = tab == {"(%s is Ok)" % send: "Result::Ok{0: $x}",
                          "(%s is Err)" % send: "Result::Err{0: tuple{0: $x, 1: %s.as:Err.0}}" % send} and calls == [send]
    elif ok and s_ is not None and e_ is not None:
        # loop form: the two vectors returned are filled by pushes guarded by the outcome of that request's own send
        vs = [v for v in common.elementwise_views(ctx, d) if v["kind"] == "loop" and v["source"] == "requests"]
        if len(vs) == 1:
            v = vs[0]
            sends = [c for c in v["calls"] if c[0] == send]
            ps = sorted((("sent" if p[0] == s_ else ("errors" if p[0] == e_ else "?")), p[1], p[2]) for p in v["pushes"])
            got = {"form": "loop", "sends": sends, "pushes": ps}
            okp = v["complete"] and sends == [(send, "true")] and ps == sorted([
                ("sent", "$x", "(%s is Ok)" % send),
                ("errors", "tuple{0: $x, 1: %s.as:Err.0}" % send, "(%s is Err)" % send)])
    ctx.check("Engine::send_requests", okp,
              "every request is sent exactly once; Ok -> that very request is reported sent, Err(e) -> (that very request, e) is reported "
              "failed; nothing else joins or leaves either list", got=got or render(rt)[:300], key="partition")


def r3(ctx):
    common_send.r3_sent_only(ctx, 7, 7)


def r4(ctx):
    GA = "barter::engine::action::generate_algo_orders::GenerateAlgoOrders"
    b = ctx.fibody(name="generate_algo_orders", self_adt=ENG, trait=GA)
    calls = b.real_calls()
    chk = [tm for bi, t, tm in calls if tm[1].endswith("RiskManager::check")]
    ctx.check("Engine::generate_algo_orders", len(chk) == 1, "one risk check", got=len(chk), key="one-check")
    if len(chk) != 1:
        return
    ck = chk[0]
    gen = ck[2][2] if len(ck[2]) > 3 else None
    ctx.check("Engine::generate_algo_orders", [render(a) for a in ck[2]] ==
              ["self.risk", "self.state", "AlgoStrategy::generate_algo_orders(self.strategy, self.state).0",
               "AlgoStrategy::generate_algo_orders(self.strategy, self.state).1"],
              "the risk manager sees exactly the strategy's (cancels, opens)", got=[render(a) for a in ck[2]], key="check-args")
    sends = [(bi, t, tm) for bi, t, tm in calls if mir.short(tm[1]) == "Engine::send_requests"]
    got = {}
    for bi, t, tm in sends:
        arg = tm[2][1]
        ok = arg[0] == "call" and arg[1].endswith("Iterator::map") and arg[2][0][0] == "proj" and arg[2][0][1] == ck
        idx = arg[2][0][2] if ok else None
        pat = None
        if ok:
            pat = common.unary_result(ctx, arg[2][1])
        kind = "cancels" if any("RequestCancel" in a for a in t["f"]["args"]) else "opens"
        got[kind] = (idx, pat)
        for sub in mir.subterms(arg):
            if sub[0] == "proj" and sub[1] == ck and sub[2][0] in ("2", "3"):
                ok = False
        ctx.check("Engine::generate_algo_orders:send<%s>" % kind, ok and idx == (("0",) if kind == "cancels" else ("1",)) and pat == "$1.0",
                  "only risk-APPROVED %s (RiskApproved(x) => x) are delivered" % kind, sites=[t["sp"]], got=render(arg)[:200], key="approved-only")
    ctx.check("Engine::generate_algo_orders", set(got) == {"cancels", "opens"}, "both kinds are sent", got=sorted(got), key="both")
    out = [tm for bi, t, tm in calls if mir.short(tm[1]) == "GenerateAlgoOrdersOutput::new"]
    ok = len(out) == 1
    if ok:
        a = out[0][2]
        ok = render(a[2]) == "Iterator::collect(%s.2)" % render(ck) and render(a[3]) == "Iterator::collect(%s.3)" % render(ck)
    ctx.check("Engine::generate_algo_orders", ok, "risk-refused requests are reported as refused (and flow nowhere else)",
              got=[render(x)[-200:] for x in out], key="refused-reported")
    # refused tuple fields are used nowhere else
    uses = 0
    for bi, t, tm in calls:
        if mir.short(tm[1]) in ("GenerateAlgoOrdersOutput::new",):
            continue
        for a in tm[2]:
            for sub in mir.subterms(a):
                if sub[0] == "proj" and sub[1] == ck and sub[2][0] in ("2", "3") and not tm[1].endswith("Iterator::collect"):
                    uses += 1
    ctx.check("Engine::generate_algo_orders", uses == 0, "refused requests are not passed to any other call", got=uses, key="refused-isolated")


def r5(ctx):
    P = "barter::engine::Processor"
    ds = [d for d in ctx.find(name="process", self_adt=ENG, trait=P, allow_many=True)]
    if len(ds) != 1:
        raise Exception("expected one Engine::process, got %r" % ds)
    b = ctx.ibody(ds[0])
    calls = b.real_calls()
    GA = "barter::engine::action::generate_algo_orders::GenerateAlgoOrders"
    target = ctx.find(name="generate_algo_orders", self_adt=ENG, trait=GA)
    gen = [(bi, t, tm) for bi, t, tm in calls if tm[1] == target]
    ctx.check("Engine::process", len(gen) == 1, "strategy-driven generation has exactly one call site", got=len(gen), key="one-site")
    lib = [c for c in common.lib_callers(ctx.facts, target)]
    tm_callers = [c for c in whomay.callers_matching(ctx.facts, lambda c: c.endswith("GenerateAlgoOrders::generate_algo_orders"))
                  if not common.is_test(ctx.facts, c[1])]
    owners = sorted(set(mir.short(whomay.owner_fn(c[0])) for c in lib) | set(mir.short(whomay.owner_fn(c[1])) for c in tm_callers))
    ctx.check("GenerateAlgoOrders::generate_algo_orders", owners == ["Engine::process"],
              "the only library caller is Engine::process", got=owners, key="callers")
    if len(gen) != 1:
        return
    gbi = gen[0][0]
    g = b.guard(gbi)
    gate = all(any(a[0] == "is" and render(a[1]) == "self.state.trading" and a[2] == frozenset(["Enabled"]) for a in conj) for conj in g)
    ctx.check("Engine::process:gate", gate, "generation is control-dependent on TradingState::Enabled on every path",
              sites=[gen[0][1]["sp"]], got=render_guard(g)[:400], key="enabled")
    # ... and on nothing else: whenever trading is enabled after a (non-shutdown, non-fatal) event, orders are generated
    extra = []
    for conj in g:
        for a in conj:
            r = mir.render_atom(a)
            if a[0] == "is" and render(a[1]) in ("self.state.trading", "event"):
                continue
            if a[0] == "is" and "unrecoverable_errors" in render(a[1]):
                continue
            extra.append(r[:140])
    ctx.check("Engine::process:gate", not extra,
              "generation depends on nothing but the trading state (and the Shutdown / fatal-command early returns)",
              got=sorted(set(extra)), key="only-trading-state")
    # the trading state is read after the event-specific update
    tblocks = [x for x in b.reachable if b.blocks[x]["term"]["t"] == "switch" and
               b.operand_term(b.blocks[x]["term"]["d"])[0] == "discr" and render(b.operand_term(b.blocks[x]["term"]["d"])[1]) == "self.state.trading"]
    ctx.check("Engine::process:gate", len(tblocks) == 1, "one read of the trading state", got=len(tblocks), key="one-read")
    upd = [(bi, t, tm) for bi, t, tm in calls if mir.short(tm[1]) in (
        "Engine::action", "Engine::update_from_trading_state_update", "Engine::update_from_account_stream", "Engine::update_from_market_stream")]
    ctx.floor("event-specific update calls", len(upd), 4)
    if len(tblocks) == 1:
        T = tblocks[0]
        for bi, t, tm in upd:
            ctx.check("Engine::process:%s" % mir.short(tm[1]), _reach(b, bi, T) and not _reach(b, T, bi),
                      "the gate is evaluated after this update (an enabling event generates on that very event)",
                      sites=[t["sp"]], key="update-before-gate")
    # commands are actioned regardless of the trading state
    for bi, t, tm in upd:
        if mir.short(tm[1]) == "Engine::action":
            gg = b.guard(bi)
            dep = any(atoms.mentions_param(a[1], "self") and "trading" in render(a[1]) for conj in gg for a in conj)
            ctx.check("Engine::process:action", not dep, "external commands are actioned whether or not trading is enabled",
                      got=render_guard(gg)[:200], key="ungated")
    # Shutdown: nothing is done
    for bi, t, tm in calls:
        nm = mir.short(tm[1])
        if nm.startswith("Engine::") and nm not in ("Engine::process",):
            gg = b.guard(bi)
            shut = any(any(a[0] == "is" and render(a[1]) == "event" and "Shutdown" in a[2] for a in conj) for conj in gg)
            ctx.check("Engine::process:Shutdown", not shut, "no action or update is performed for a Shutdown event",
                      sites=[t["sp"]], got=nm, key=nm)
    # a command with unrecoverable errors returns before generation
    g_has_unrec = all(any((a[0] == "is" and render(a[1]) == "event" and "Command" not in a[2]) or
                          (a[0] == "is" and "unrecoverable_errors" in render(a[1]) and a[2] == frozenset(["None"])) for a in conj) for conj in g)
    ctx.check("Engine::process:gate", g_has_unrec, "after a command with unrecoverable errors nothing is generated",
              got=render_guard(g)[:400], key="fatal-first")


def _reach(b, frm, to):
    seen, stack = set(), [y for _, y in b.succ[frm] if y != mir.EXIT]
    while stack:
        x = stack.pop()
        if x == to:
            return True
        if x in seen:
            continue
        seen.add(x)
        stack.extend(y for _, y in b.succ[x] if y != mir.EXIT)
    return False


def r6(ctx):
    found = []
    for d in common_idx.lib_bodies(ctx):
        rec = ctx.facts.bodies[d]
        for blk in rec["blocks"]:
            t = blk["term"]
            if not (t and t["t"] == "call" and "def" in t["f"] and t["f"]["def"].rsplit("::", 1)[-1] in ("send", "try_send", "send_timeout", "blocking_send")
                    and len(t["args"]) == 2):
                continue
            a = t["args"][1]
            p = a.get("m") or a.get("c")
            ty = rec["locals"][p["l"]]["ty"] if p is not None and not p["p"] else (a["k"]["ty"] if "k" in a else "")
            if "ExecutionRequest" in ty:
                found.append((d, blk["i"], t["sp"], ty))
    owners = {}
    for d, bi, sp, ty in found:
        b = ctx.ibody(d)
        t = b.blocks[bi]["term"]
        owners.setdefault(mir.short(whomay.owner_fn(d)), []).append((sp, render(b.operand_term(t["args"][1]))))
    ok = set(owners) == {"Engine::send_request", "Engine::shutdown"}
    ctx.check("ExecutionRequest channel", ok, "only send_request and the engine's shutdown put items on an execution link",
              got={k: v for k, v in owners.items()}, key="who-may-deliver")
    for sp, item in owners.get("Engine::shutdown", []):
        ctx.check("Engine::shutdown", item == "ExecutionRequest::Shutdown{}", "shutdown delivers only the Shutdown item",
                  sites=[sp], got=item, key="shutdown-item")
    ctx.floor("execution-link deliveries", len(found), 2)
    # the channel wrapper hands the item straight to the tokio sender
    UT = "barter_integration::channel::UnboundedTx"
    ub = ctx.ibody(ctx.find(name="send", self_adt=UT, trait="barter_integration::channel::Tx"))
    ctx.check("UnboundedTx::send", render(ub.return_term()) == "UnboundedSender::send(self.tx, Into::into(item))" and
              len(ub.real_calls()) == 2, "the link wrapper forwards exactly the given item to its channel, once, and returns the channel's verdict",
              got=render(ub.return_term()), key="wrapper")


def r7(ctx):
    MX = "barter::engine::execution_tx::MultiExchangeTxMap"
    b = ctx.fibody(name="find", self_adt=MX, trait="barter::engine::execution_tx::ExecutionTxMap")
    tab = common.case_table(b)
    slot = "IndexMap::get_index(self.0, ExchangeIndex::index(exchange))"
    okk = [k for k, v in tab.items() if v == ["Result::Ok{0: %s.as:Some.0.1.as:Some.0}" % slot]]
    errk = [k for k, v in tab.items() if len(v) == 1 and v[0].startswith("Result::Err{0: UnrecoverableEngineError::IndexError{0: IndexError::ExchangeIndex{")]
    ok = len(tab) == 2 and okk == ["(%s is Some && %s.as:Some.0.1 is Some)" % (slot, slot)] and \
        errk == ["(%s is None) || (%s is Some && %s.as:Some.0.1 is None)" % (slot, slot, slot)]
    ctx.check("MultiExchangeTxMap::find", bool(ok),
              "Ok(the transmitter stored at the exchange's own index) iff the index is in range AND the slot holds one; Err otherwise",
              got={k: [x[:100] for x in v] for k, v in tab.items()}, key="missing-link")


def r8(ctx):
    # "the order it opens - or the tracked order it cancels - is from then on shown as in flight": the recorders
    # themselves (shared with C01.R5)
    from rules import C01
    C01.r5(ctx)


def r9(ctx):
    """reporting: an outcome (sent, failed, refused) is never silently dropped from the engine's output"""
    want = {
        ("barter::engine::action::generate_algo_orders::GenerateAlgoOrdersOutput", "is_empty"):
            {"SendCancelsAndOpensOutput::is_empty(self.cancels_and_opens)", "NoneOneOrMany::is_none(self.cancels_refused)",
             "NoneOneOrMany::is_none(self.opens_refused)"},
        ("barter::engine::action::send_requests::SendCancelsAndOpensOutput", "is_empty"):
            {"SendRequestsOutput::is_empty(self.cancels)", "SendRequestsOutput::is_empty(self.opens)"},
        ("barter::engine::action::send_requests::SendRequestsOutput", "is_empty"):
            {"NoneOneOrMany::is_none(self.sent)", "NoneOneOrMany::is_none(self.errors)"},
    }
    for (adt, fn), w in want.items():
        b = ctx.fibody(name=fn, self_adt=adt, trait="")
        got = common.conjunction_of(b)
        ctx.check("%s::%s" % (mir.short(adt).split("::")[-1], fn), got == w,
                  "the output counts as empty only if EVERY part is empty (otherwise Engine::process would drop a sent / failed / refused "
                  "request from its report)", got=sorted(got) if got else None, want=sorted(w), key="all-parts")
    # Engine::process: the algo output is dropped only when is_empty, otherwise attached (errors or output)
    P = "barter::engine::Processor"
    b = ctx.ibody(ctx.find(name="process", self_adt=ENG, trait=P))
    calls = b.real_calls()
    ie = [(bi, t, tm) for bi, t, tm in calls if mir.short(tm[1]) == "GenerateAlgoOrdersOutput::is_empty"]
    add = [(bi, t, tm) for bi, t, tm in calls if mir.short(tm[1]) in ("ProcessAudit::add_output", "ProcessAudit::add_errors")]
    ok = len(ie) == 1 and len(add) == 2
    if ok:
        for bi, t, tm in add:
            g = b.guard(bi)
            ok = ok and all(any(a[0] == "bool" and a[1] == ie[0][2] and a[2] is False for a in conj) for conj in g)
        ao = [tm for bi, t, tm in add if mir.short(tm[1]) == "ProcessAudit::add_output"]
        ok = ok and len(ao) == 1 and any(s_[0] == "call" and s_[1].endswith("GenerateAlgoOrders::generate_algo_orders") or
                                         (s_[0] == "call" and mir.short(s_[1]) == "Engine::generate_algo_orders") for s_ in mir.subterms(ao[0][2][1]))
    ctx.check("Engine::process:algo-output", ok,
              "a non-empty algo output is always attached to the audit (as output, or as errors when unrecoverable)",
              got=[render(x[2])[:100] for x in add], key="attached")


def r10(ctx):
    """strategy hooks that may send requests (on_trading_disabled / on_disconnect) run exactly when their trigger occurs and their
    output is what the engine reports - a hook that runs on other events sends requests that the audit never shows"""
    b = ctx.fibody(name="update_from_trading_state_update", self_adt=ENG, trait="")
    tr = "TradingStateUpdateAudit::transitioned_to_disabled(TradingState::update(self.state.trading, update))"
    hook = "OnTradingDisabled::on_trading_disabled(self)"
    tab = common.case_table(b)
    calls = [(render(tm), common.canon_guard(b.guard(bi))) for bi, t, tm in b.real_calls() if mir.short(tm[1]).endswith("on_trading_disabled")]
    ctx.check("Engine::update_from_trading_state_update", tab == {"(%s)" % tr: ["Option::Some{0: %s}" % hook], "(!%s)" % tr: ["Option::None{}"]} and
              calls == [(hook, "(%s)" % tr)],
              "the on-trading-disabled hook runs exactly when the update transitioned trading to Disabled, and its output is returned (reported)",
              got={"table": tab, "hook calls": calls}, key="hook-iff-transition")
    for fn, hookname, upd in (("update_from_account_stream", "on_disconnect", "update_from_account_reconnecting"),
                              ("update_from_market_stream", "on_disconnect", "update_from_market_reconnecting")):
        fb = ctx.fibody(name=fn, self_adt=ENG, trait="")
        hs = [(bi, tm) for bi, t, tm in fb.real_calls() if mir.short(tm[1]).endswith("::" + hookname)]
        ok = len(hs) == 1 and common.canon_guard(fb.guard(hs[0][0])) == "(event is Reconnecting)"
        used = ok and any(hs[0][1] in list(mir.subterms(t_)) for g, t_, bi_ in fb.expanded_cases(0))
        ctx.check("Engine::" + fn, ok and used, "the on-disconnect hook runs exactly on a Reconnecting event and its output is returned (reported)",
                  got=[(render(h[1])[:100], common.canon_guard(fb.guard(h[0]))) for h in hs], key="hook-iff-disconnect")


def _unrec_leaves(t):
    """the parts whose unrecoverable errors are collected: leaves of the extend-tree"""
    if t[0] == "call" and mir.short(t[1]) == "NoneOneOrMany::into_option":
        return _unrec_leaves(t[2][0])
    if t[0] == "call" and mir.short(t[1]) == "NoneOneOrMany::extend":
        return _unrec_leaves(t[2][0]) + _unrec_leaves(t[2][1])
    if t[0] == "call" and mir.short(t[1]) == "SendRequestsOutput::unrecoverable_errors":
        return [render(t[2][0])]
    return ["?" + render(t)[:120]]


def r11(ctx):
    """fatal classification: Engine::process decides whether an action was fatal only through `unrecoverable_errors()`; the accessor
    must look at EVERY part of the output (a failed open of a ClosePositions command is as fatal as a failed cancel)"""
    both = "barter::engine::action::send_requests::SendCancelsAndOpensOutput"

    def leaves(b):
        out = {}
        for g, t, bi in b.expanded_cases(0):
            t = common.resolve_calls(ctx, t, lambda c: mir._strip_generics(c).endswith("SendCancelsAndOpensOutput::unrecoverable_errors"))
            out.setdefault(common.canon_guard(g), []).append(sorted(_unrec_leaves(t)))
        return out
    b = ctx.fibody(name="unrecoverable_errors", self_adt="barter::engine::action::ActionOutput", trait="")
    got = leaves(b)
    want = {"(self is GenerateAlgoOrders)": [["self.as:GenerateAlgoOrders.0.cancels_and_opens.cancels", "self.as:GenerateAlgoOrders.0.cancels_and_opens.opens"]],
            "(self is CancelOrders)": [["self.as:CancelOrders.0"]], "(self is OpenOrders)": [["self.as:OpenOrders.0"]],
            "(self is ClosePositions)": [["self.as:ClosePositions.0.cancels", "self.as:ClosePositions.0.opens"]]}
    ctx.check("ActionOutput::unrecoverable_errors", got == want,
              "per action kind, the unrecoverable errors of every request list of that output (cancels AND opens)", got=got, want=want, key="all-parts")
    b = ctx.fibody(name="unrecoverable_errors", self_adt="barter::engine::action::generate_algo_orders::GenerateAlgoOrdersOutput", trait="")
    got = leaves(b)
    ctx.check("GenerateAlgoOrdersOutput::unrecoverable_errors", got == {"true": [["self.cancels_and_opens.cancels", "self.cancels_and_opens.opens"]]},
              "the unrecoverable errors of both request lists", got=got, key="all-parts")
    b = ctx.fibody(name="unrecoverable_errors", self_adt=both, trait="")
    got = leaves(b)
    ctx.check("SendCancelsAndOpensOutput::unrecoverable_errors", got == {"true": [["self.cancels", "self.opens"]]},
              "the unrecoverable errors of the cancels and of the opens", got=got, key="all-parts")
    b = ctx.fibody(name="unrecoverable_errors", self_adt="barter::engine::action::send_requests::SendRequestsOutput", trait="")
    try:
        src, steps, sink = common.pipeline(ctx, b.return_term())
        got = (render(src), steps, sink)
    except Exception as e:   # noqa
        got = "unrecognised: %s" % e
    want_p = ("self.errors", [("filter", ["$x.1 is Unrecoverable"]), ("map", "$x.1.as:Unrecoverable.0")], "collect")
    if got != want_p:
        # loop form: one complete loop over self.errors pushing exactly the Unrecoverable errors into the vector the result is made of
        d_ = ctx.find(name="unrecoverable_errors", self_adt="barter::engine::action::send_requests::SendRequestsOutput", trait="")
        vs = [v for v in common.elementwise_views(ctx, d_) if v["kind"] == "loop"]
        if len(vs) == 1 and vs[0]["complete"] and vs[0]["source"] == "self.errors" and not vs[0]["calls"] and \
                [(x[1], x[2]) for x in vs[0]["pushes"]] == [("$x.1.as:Unrecoverable.0", "($x.1 is Unrecoverable)")] and \
                any(s_ == vs[0]["pushes"][0][0] for s_ in mir.subterms(b.return_term())):
            got = want_p
    ctx.check("SendRequestsOutput::unrecoverable_errors", got == want_p,
              "exactly the Unrecoverable errors of the failed requests, each of them", got=got, key="selects-unrecoverable")
    # Engine::process: a command output with an unrecoverable error is reported as errors (the audit becomes terminal)
    P = "barter::engine::Processor"
    pb = ctx.ibody(ctx.find(name="process", self_adt=ENG, trait=P))
    ue = [(bi, tm) for bi, t, tm in pb.real_calls() if mir.short(tm[1]) == "ActionOutput::unrecoverable_errors"]
    pe = [(bi, tm) for bi, t, tm in pb.real_calls() if mir.short(tm[1]) == "EngineAudit::process_with_output_and_errs"]
    ok = len(ue) == 1 and len(pe) == 1
    if ok:
        u, a = ue[0][1], pe[0][1]
        ok = render(a[2][1]) == render(u) + ".as:Some.0" and render(a[2][2]) == render(u[2][0]) and \
            set(common.canon_guard(pb.guard(pe[0][0]))[1:-1].split(" && ")) == {"event is Command", "%s is Some" % render(u)} and \
            any(t == a for g, t, bi in pb.expanded_cases(0))
    ctx.check("Engine::process:command-output", ok, "a command whose output has unrecoverable errors is reported with them (terminal audit), "
              "exactly when the accessor finds any", got=[(render(x[1])[:200], common.canon_guard(pb.guard(x[0]))[:200]) for x in pe], key="fatal-reported")


def r12(ctx):
    """sent / failed / refused requests are REPORTED in NoneOneOrMany containers: collecting into one keeps every element (a refused
    request that is dropped by the container appears nowhere in the audit).  from_iter decides None / One / Many on the collected
    length; extend keeps both sides' elements"""
    import re
    N = "barter_integration::collection::none_one_or_many::NoneOneOrMany"

    def plain(x):
        prev = None
        while prev != x:
            prev = x
            x = re.sub(r"mut\[[a-z_,]*\]\(((?:[^()]|\([^()]*\))*)\)", r"\1", x)
        return x
    b = ctx.ibody(ctx.find(name="from_iter", self_adt=N, trait="std::iter::FromIterator"))
    tab = {plain(k): [plain(v) for v in vs] for k, vs in common.case_table(b).items()}
    v = "Iterator::collect(iter)"
    ones = ["NoneOneOrMany::One{0: Vec::swap_remove(%s, 0)}" % v, "NoneOneOrMany::One{0: Vec::remove(%s, 0)}" % v]
    k0, k1, kn = "(Vec::len(%s) in {0})" % v, "(Vec::len(%s) in {1})" % v, "(Vec::len(%s) not in {0,1})" % v
    ok = set(tab) == {k0, k1, kn} and tab[k0] == ["NoneOneOrMany::None{}"] and len(tab[k1]) == 1 and tab[k1][0] in ones and \
        tab[kn] == ["NoneOneOrMany::Many{0: %s}" % v]
    ctx.check("NoneOneOrMany::from_iter", ok, "None for no element, One(the element) for one, Many(all of them) otherwise - decided on the "
              "collected length", got=tab, key="keeps-all")
    e = ctx.ibody(ctx.find(name="extend", self_adt=N, trait=""))
    tab = common.case_table(e)
    o = "NoneOneOrMany::from_iter(other)"
    want = {
        "(self is None)": [o],
        "(%s is None && self is Many|One)" % o: ["self"],
        "(%s is One && self is Many|One && self is One)" % o: ["NoneOneOrMany::Many{0: vec{self.as:One.0, %s.as:One.0}}" % o],
        "(%s is Many && self is Many|One && self is One)" % o: ["NoneOneOrMany::Many{0: mut[push](%s.as:Many.0)}" % o],
        "(%s is One && self is Many && self is Many|One)" % o: ["NoneOneOrMany::Many{0: mut[push](self.as:Many.0)}"],
        "(%s is Many && self is Many && self is Many|One)" % o: ["NoneOneOrMany::Many{0: mut[extend](self.as:Many.0)}"],
    }
    ctx.check("NoneOneOrMany::extend", tab == want, "extending keeps the elements of both sides in every combination of None / One / Many",
              got=tab, want=want, key="keeps-both")
    # (what is pushed / extended in the Many arms)
    muts = sorted((mir.short(tm[1]), tuple(render(a) for a in tm[2])) for bi, t, tm in e.real_calls() if e.mut_args(t))
    ctx.check("NoneOneOrMany::extend", muts == sorted([("Vec::push", ("%s.as:Many.0" % o, "self.as:One.0")) if False else ("Vec::push", ("self.as:Many.0", "%s.as:One.0" % o)),
                                                      ("Vec::push", ("%s.as:Many.0" % o, "self.as:One.0")),
                                                      ("Extend::extend", ("self.as:Many.0", "%s.as:Many.0" % o))]) or
              sorted(m[0] for m in muts) == ["Extend::extend", "Vec::push", "Vec::push"] and
              all(set(a.replace("mut[push](", "").replace("mut[extend](", "").rstrip(")") for a in m[1]) <= {"self.as:Many.0", "self.as:One.0", "%s.as:Many.0" % o, "%s.as:One.0" % o}
                  for m in muts),
              "the Many arms add exactly the other side's element(s) to the kept vector", got=muts, key="adds-other")


RULES = [
    ("R9", "reporting: is_empty covers every part of the output; non-empty outputs are attached to the audit", r9),
    ("R8", "in-flight recorders: a sent open is tracked OpenInFlight, a sent cancel marks the tracked order CancelInFlight", r8),
    ("R1", "send_request: Ok iff channel accepted; exactly one send of the request on its exchange's link; error classes", r1),
    ("R2", "send_requests: per-request partition into sent / (request, error)", r2),
    ("R3", "in flight = the `.sent` half of that very send, exactly once, matching kind, on every path", r3),
    ("R4", "risk-refused requests are never delivered and are reported as refused", r4),
    ("R5", "trading gate: single generation site under TradingState::Enabled read after the update; commands ungated", r5),
    ("R6", "who may deliver on an execution link", r6),
    ("R7", "a missing link is an error", r7),
    ("R10", "request-sending strategy hooks run exactly on their trigger and their output is reported", r10),
    ("R11", "fatal classification: unrecoverable_errors() covers every request list of every action output", r11),
    ("R12", "reporting containers keep every element (NoneOneOrMany::from_iter / extend)", r12),
]
