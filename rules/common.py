"""Helpers shared by rule packs."""
import re
from sa import atoms, mir, whomay
from sa.mir import render, render_guard

_IMPL_IDX = {}


def impl_of(facts, defn):
    key = id(facts)
    if key not in _IMPL_IDX:
        idx = {}
        for imp in facts.impls:
            for it in imp["items"]:
                idx[it["def"]] = imp
        _IMPL_IDX[key] = idx
    return _IMPL_IDX[key].get(defn)


def is_derived(facts, defn):
    imp = impl_of(facts, whomay.owner_fn(defn))
    return bool(imp and imp.get("derived"))


def is_test(facts, defn):
    rec = facts.bodies.get(defn)
    return bool(rec and rec.get("test"))


def path_has(term, root, *fields):
    """term is rooted at param `root` and its projection starts with `fields`"""
    if term[0] != "proj":
        return False
    base = term[1]
    if not (base[0] == "param" and base[2] == root):
        return False
    return term[2][:len(fields)] == tuple(fields)


def effects(body, pred):
    """stores into, and `&mut` hand-offs of, places satisfying pred(path_term)"""
    out = []
    for bi, si, path, value, s in body.stores():
        if pred(path):
            out.append({"kind": "store", "bi": bi, "sp": s["sp"], "path": path, "value": value,
                        "what": "store:" + render(path)})
    for bi, t, term in body.real_calls():
        for i in body.mut_args(t):
            a = term[2][i] if i < len(term[2]) else None
            if a is not None and pred(a):
                out.append({"kind": "mutcall", "bi": bi, "sp": t["sp"], "path": a, "callee": term[1],
                            "args": list(term[2]), "what": "call:%s(&mut %s)" % (mir.short(term[1]), render(a))})
    return out


def lib_callers(facts, callee):
    """call sites in non-test library code"""
    return [(d, bi, sp) for d, bi, sp in whomay.callers_of(facts, callee) if not is_test(facts, d)]


# ---------------------------------------------------------------------------------------------
# C01.R2 / C09.R3: exchange-timestamp guards in Orders::update_from_order_snapshot
# ---------------------------------------------------------------------------------------------
ORDERS = "barter::engine::state::order::Orders"
OM = "barter::engine::state::order::manager::OrderManager"
ACTIVE = "barter_execution::order::state::ActiveOrderState"


MAP_LOOKUPS = ("::entry", "::get", "::get_mut", "::remove", "::get_index", "::get_index_mut")
ENTRY_PLUMBING = ("OccupiedEntry::<'a, K, V, A>::get", "OccupiedEntry::<'a, K, V, A>::get_mut",
                  "OccupiedEntry::<'a, K, V, A>::into_mut")


def norm_map(term):
    """rewrite keyed lookups `map.entry(k)` / `map.get(k)` into the access path `map.[k]` and erase
    entry plumbing, so that 'the tracked order' is a path rooted in self"""
    def f(t):
        if t[0] == "call":
            name = mir._strip_generics(t[1])
            if len(t[2]) == 2 and name.startswith(("std::collections::HashMap::", "indexmap::IndexMap::")) \
                    and name.endswith(MAP_LOOKUPS):
                return mir.mk_proj(mir.subst(t[2][0], f), ("[key]",))
            if len(t[2]) == 1 and name.startswith("std::collections::hash_map::OccupiedEntry::") \
                    and name.endswith(("::get", "::get_mut", "::into_mut")):
                return mir.subst(t[2][0], f)
            # `opt.take()` yields the value the option held: for provenance it IS that value
            if len(t[2]) == 1 and name == "std::option::Option::take":
                return mir.subst(t[2][0], f)
        return None
    return mir.subst(term, f)


def _tracked(t):
    t = norm_map(t)
    return atoms.mentions_param(t, "self") and not atoms.mentions_param(t, "snapshot")


def _reported(t):
    return atoms.mentions_param(norm_map(t), "snapshot")


def _time_fact(f):
    op, a, b, _c = f
    return (op in ("le", "lt") and _tracked(a) and atoms.ends_with(a, "time_exchange")
            and _reported(b) and atoms.ends_with(b, "time_exchange"))


def _filtered_ok(facts, value):
    """every report-derived leaf of `value` sits under Option::filter(.., pred) whose predicate implies
    tracked.time_exchange <= candidate.time_exchange"""
    def walk(t):
        if not _reported(t):
            return True
        if t[0] == "call" and t[1].endswith("Option::<T>::filter") and len(t[2]) == 2 and t[2][1][0] == "agg":
            inner = mir.mk_proj(t[2][0], ("as:Some", "0"))
            p = atoms.closure_pred(facts, t[2][1], [inner])
            if p is not None:
                c = atoms.cmp_term(p)
                if c:
                    cc = atoms.canon_cmp(*c)
                    if _time_fact((cc[0], cc[1], cc[2], None)):
                        return True
            return False
        if t[0] in ("agg",):
            return all(walk(x) for x in t[3])
        if t[0] == "call":
            return all(walk(x) for x in t[2])
        if t[0] == "phi":
            return all(walk(x) for x in t[1])
        return False
    return walk(norm_map(value))


def order_time_guards(ctx):
    b = ctx.fibody(name="update_from_order_snapshot", self_adt=ORDERS, trait=OM)
    n = 0
    expanded = []
    for bi, si, path, value, s in b.stores():
        for g2, v2 in b.expand_term(b.guard(bi), value):
            expanded.append((bi, si, path, v2, s, g2))
    for bi, si, path, value, s, g in expanded:
        if not (atoms.ends_with(path, "state") and _tracked(path)):
            continue
        # which tracked states can this store overwrite?
        prev = set()
        unknown = False
        for conj in g:
            found = None
            for a in conj:
                if a[0] == "is" and a[3] == ACTIVE and _tracked(a[1]):
                    found = set(a[2]) if found is None else (found & set(a[2]))
            if found is None:
                unknown = True
            else:
                prev |= found
        if not unknown and prev <= {"OpenInFlight"}:
            continue  # an in-flight marker carries no exchange data
        if not _reported(value):
            continue  # re-stores tracked data only
        n += 1
        def time_or_nothing_held(k, x):
            if k == "cmp":
                return _time_fact(x)
            # explicit form of `.is_none_or(..)`: the in-flight cancel holds no exchange-confirmed data yet
            return k == "atom" and x[0] == "is" and x[2] == frozenset(["None"]) and _tracked(x[1]) and \
                render(norm_map(x[1])).endswith(".state.as:CancelInFlight.0.order")
        ctrl = atoms.guard_implies(ctx.facts, b, g, time_or_nothing_held)
        filt = _filtered_ok(ctx.facts, value)
        anchor = "Orders::update_from_order_snapshot:(%s<-%s)" % ("|".join(sorted(prev)) or "?", _report_state(g))
        ctx.check(anchor, ctrl or filt,
                  "a report may replace exchange-confirmed order data only if tracked.time_exchange <= "
                  "reported.time_exchange (branch, is_none_or or filter form)",
                  sites=[s["sp"]], got={"guard": render_guard(g), "value": render(value)[:400]})
    return n


def _report_state(g):
    names = set()
    for conj in g:
        for a in conj:
            if a[0] == "is" and a[3] == ACTIVE and _reported(a[1]):
                names |= set(a[2])
    return "|".join(sorted(names)) or "?"


def mutates_self(body, t, term):
    """the call hands out `&mut` to something reached through the `self` parameter
    (`&mut iterator` arguments of Iterator adapters advance an iterator, not the state)"""
    if term[1].startswith("std::iter::Iterator::"):
        return False
    for i in body.mut_args(t):
        if i < len(term[2]) and atoms.mentions_param(term[2][i], "self"):
            return True
    return False


def expand_phi_cases(b, cases):
    """split return cases whose term contains a phi of a multiply-assigned local into one case per
    assignment of that local (with that assignment's own guard)"""
    out = []
    for g, term, bi in cases:
        phis = [t for t in mir.subterms(term) if t[0] == "phi" and len(t) > 2 and t[2] is not None]
        if phis:
            ph = phis[0]
            for g2, t2, bi2 in b.local_cases(ph[2]):
                out.append((g2, mir.subst(term, lambda x: t2 if x == ph else None), bi2))
        else:
            out.append((g, term, bi))
    return out


def variant_of(g, path_render):
    """names the guard restricts `path` to (union over disjuncts), or None"""
    names = set()
    for conj in g:
        for a in conj:
            if a[0] == "is" and render(a[1]) == path_render:
                names |= set(a[2])
    return names or None


def agg_fields(term, adt_suffix=None):
    """{field: rendered operand} of the first aggregate (optionally of the ADT whose path ends with adt_suffix) in term"""
    for s_ in mir.subterms(term):
        if s_[0] == "agg" and s_[2] and (adt_suffix is None or s_[1].endswith(adt_suffix)):
            return {k: render(v) for k, v in zip(s_[2], s_[3])}
    return {}


def conjunction_of(body):
    """for a boolean function of the shape `p1(..) && p2(..) && ...`: the set of rendered predicate calls whose
    conjunction is the result, or None if the function has another shape"""
    cases = body.expanded_cases(0)
    true_cases = [(g, t) for g, t, bi in cases if not (t[0] == "const" and t[1] in ("0", "false"))]
    if len(true_cases) != 1:
        return None
    g, t = true_cases[0]
    if len(g) != 1:
        return None
    out = set()
    for a in next(iter(g)):
        if a[0] != "bool" or a[2] is not True:
            return None
        out.add(render(a[1]))
    out.add(render(t))
    # every other case must return false
    for g2, t2, bi in cases:
        if (g2, t2) != (g, t) and not (t2[0] == "const" and t2[1] in ("0", "false")):
            return None
    return out


def leaf_role(ctx, anchor, b, what, ret=None, effects=None, key="role"):
    """A one-step helper must play exactly its role: `ret` is the rendered return term, `effects` the exact list of
    rendered (unconditional) calls with a `&mut` receiver / stores it performs.  The role (keyed lookup by the argument,
    append the argument, field view, constructor storing each parameter in its own field) is the helper's whole meaning,
    so the normalised MIR term is compared, not source text."""
    ok = True
    got = {}
    if ret is not None:
        r = render(b.return_term())
        got["ret"] = r[:300]
        ok = ok and (r == ret if isinstance(ret, str) else r in ret)
    if effects is not None:
        true = frozenset([frozenset()])
        eff = []
        for bi, t, tm in b.real_calls():
            if mut_args_of(b, t):
                eff.append(render(tm)[:200] + ("" if b.guard(bi) == true else " IF " + mir.render_guard(b.guard(bi))[:120]))
        for bi, si, path, value, s in b.stores():
            eff.append("%s <- %s" % (render(path), render(value)[:160]) + ("" if b.guard(bi) == true else " IF " + mir.render_guard(b.guard(bi))[:120]))
        got["effects"] = eff
        ok = ok and sorted(eff) == sorted(effects)
    ctx.check(anchor, ok, what, got=got, want={"ret": ret, "effects": effects}, key=key)
    return ok


def mut_args_of(b, t):
    try:
        return b.mut_args(t)
    except Exception:
        return []


def summary_forwarders(ctx):
    """TradingSummaryGenerator::update_from_{balance,position} hand every point to the tear sheet of the point's own key"""
    G = "barter::statistic::summary::TradingSummaryGenerator"
    for fn, want in (("update_from_balance", "TearSheetAssetGenerator::update_from_balance(AssetTearSheetManager::asset_mut(self, balance.0.asset), balance)"),
                     ("update_from_position", "TearSheetGenerator::update_from_position(InstrumentTearSheetManager::instrument_mut(self, position.instrument), position)")):
        fb = ctx.fibody(name=fn, self_adt=G, trait="")
        fw = [(bi, render(tm)) for bi, t, tm in fb.real_calls() if mir.short(tm[1]).endswith("::" + fn)]
        ctx.check("TradingSummaryGenerator::" + fn, len(fw) == 1 and fw[0][1] == want and fb.guard(fw[0][0]) == frozenset([frozenset()]),
                  "every snapshot / closed position is forwarded, unconditionally, to the tear sheet keyed by its own asset / instrument",
                  got=[(x[1][:160], render_guard(fb.guard(x[0]))[:120]) for x in fw], key="forward-every")


def canon_atom(a):
    """rendered atom with comparisons in canonical orientation (a < b for b > a, ...) and `x == UnitVariant` as `x is Variant`"""
    c = atoms.atom_cmp(a)
    if c:
        op, x, y = c
        if op in ("eq", "ne"):
            for u, v in ((x, y), (y, x)):
                if v[0] == "agg" and v[1].startswith("adt:") and not v[3]:
                    return "%s %s %s" % (render(u), "is" if op == "eq" else "is not", v[1].rsplit("::", 1)[-1])
            x, y = sorted((x, y), key=render)
        return "%s(%s, %s)" % (op, render(x), render(y))
    return mir.render_atom(a)


def canon_guard(g):
    if g == frozenset([frozenset()]):
        return "true"
    return " || ".join(sorted("(" + " && ".join(sorted(canon_atom(a) for a in c)) + ")" for c in g))


def case_table(b, local=0):
    """{canonical guard: rendered value} of a local (default: the return place), idiom-independent on an inlined body"""
    tab = {}
    for g, t, bi in b.expanded_cases(local):
        g = untry_guard(b, g)
        if not g:
            continue            # a case that cannot happen (its guard tests a literal variant for another one)
        tab.setdefault(canon_guard(g), set()).add(render(drop_never(untry(b, t))))
    # cases that yield the same value are one case (their guards are alternatives)
    by_val = {}
    for k, v in tab.items():
        by_val.setdefault(tuple(sorted(v)), []).append(k)
    return {" || ".join(sorted(ks)): list(v) for v, ks in by_val.items()}


def effective_owners(facts, d, _seen=None):
    """the named function(s) responsible for a site: the enclosing function, or - when that is a private helper that no
    rule names (it would be inlined by sa/inline.py) - the functions that call the helper, transitively"""
    from sa import inline
    o = whomay.owner_fn(d)
    _seen = _seen or set()
    rec = facts.bodies.get(o)
    if rec is None or o in _seen or not inline.default_policy(facts, o, rec):
        return {o}
    out = set()
    for cd, bi, sp in lib_callers(facts, o):
        out |= effective_owners(facts, cd, _seen | {o})
    return out or {o}


def _unnot(a):
    """bool atom with leading logical negations folded into the polarity"""
    while a[0] == "bool" and a[1][0] == "un" and a[1][1] == "Not":
        a = ("bool", a[1][2], not a[2]) + tuple(a[3:])
    return a


def forall_loop(b, target):
    """On an inlined body: `target` (a block) runs only after a loop `for x in SRC` ran to exhaustion in which every
    element satisfied a predicate P(x) (an element failing P leaves the loop without reaching `target`) - the shape of
    `SRC.all(P)` and of a hand-written `for x in SRC { if !P(x) { return false } } true` alike.
    Returns (rendered SRC, rendered P with the element written `$x`, block of the `next` call) or None."""
    nexts = {}
    for bi, t, tm in b.real_calls():
        if tm[1].endswith("Iterator::next") and len(tm[2]) == 1:
            nexts[tm] = bi
    for conj in b.guard(target):
        for a in conj:
            if a[0] == "is" and a[2] == frozenset(["None"]) and a[1] in nexts:
                nt, bn = a[1], nexts[a[1]]
                heads = {x for x in b.reachable if b.blocks[x]["term"]["t"] == "false_unwind"}
                # the loop head this `next` belongs to: the closest dominating false_unwind block
                hs = [h for h in heads if b.dominates(h, bn)]
                if not hs:
                    continue
                head = max(hs, key=lambda h: sum(1 for k in hs if b.dominates(k, h)))
                elem = mir.mk_proj(nt, ("as:Some", "0"))
                # entry of the loop body: the Some edge
                body_entry = None
                for x in b.reachable:
                    if b.blocks[x]["term"]["t"] == "switch":
                        for lab, y in b.succ[x]:
                            ea = b.edge_atom(x, lab)
                            if ea[0] == "is" and ea[1] == nt and ea[2] == frozenset(["Some"]):
                                body_entry = y
                if body_entry is None:
                    continue
                # candidate predicate edges inside the body
                for x in sorted(b.reachable):
                    if b.blocks[x]["term"]["t"] != "switch":
                        continue
                    edges = [(lab, y, _unnot(b.edge_atom(x, lab))) for lab, y in b.succ[x]]
                    tr = [(lab, y, ea) for lab, y, ea in edges if ea[0] == "bool" and ea[2] is True and
                          any(s_ == elem for s_ in mir.subterms(ea[1]))]
                    fl = [(lab, y, ea) for lab, y, ea in edges if ea[0] == "bool" and ea[2] is False]
                    if len(tr) != 1 or len(fl) != 1:
                        continue
                    # (a) without the P-true edge the loop cannot continue
                    seen, stack, back = set(), [body_entry], False
                    while stack:
                        z = stack.pop()
                        if z in seen or z == mir.EXIT:
                            continue
                        seen.add(z)
                        for lab, y in b.succ[z]:
                            if z == x and y == tr[0][1] and lab == tr[0][0]:
                                continue
                            if y == head:
                                back = True
                            else:
                                stack.append(y)
                    if back:
                        continue
                    # (b) the target runs only on exhaustion of the loop: every disjunct of its guard carries `next is None`
                    #     (the failing element's path assigns the opposite boolean and is excluded by the lifted guard)
                    if not all(any(a2[0] == "is" and a2[1] == nt and a2[2] == frozenset(["None"]) for a2 in c2) for c2 in b.guard(target)):
                        continue
                    src = nt[2][0]
                    if src[0] == "mutated":
                        src = src[1]
                    pr = render(mir.subst(tr[0][2][1], lambda q: ("const", "$x", "?") if q == elem else None))
                    return render(src), pr, bn
    return None


def strip_iter(t):
    """the collection an iterator expression walks: drops .iter() / .into_iter() / .iter_mut() / in-place-mutation wrappers"""
    while True:
        if t[0] == "mutated":
            t = t[1]
        elif t[0] == "call" and len(t[2]) == 1 and mir._strip_generics(t[1]).rsplit("::", 1)[-1] in ("iter", "into_iter", "iter_mut"):
            t = t[2][0]
        else:
            return t


def elementwise_views(ctx, defn):
    """Per-element views of a function that processes a collection element by element, whichever idiom it uses:
      * `SRC.iter().map(|x| { effects; y }).collect()`  (lazy adaptor + closure), or
      * `for x in SRC { effects; out.push(y) }`          (loop, also `.for_each(..)` after inlining).
    Each view: {"source": rendered SRC, "calls": [(rendered call with the element written $x, canonical guard without the
    iteration atom)], "yields": [rendered y]}.  Rules compare views, not idioms."""
    views = []
    b = ctx.ibody(defn)
    X = ("const", "$x", "?")
    for bi, t, tm in b.real_calls():
        if tm[1].endswith("Iterator::map") and len(tm[2]) == 2 and tm[2][1][0] == "agg" and tm[2][1][1].startswith("closure:"):
            cdef = tm[2][1][1][len("closure:"):]
            if cdef not in ctx.facts.bodies:
                continue
            cb = ctx.ibody(cdef)

            def rx(term, cl=tm[2][1]):
                tt = mir.in_closure(ctx.facts, cl, term)
                return render(mir.subst(tt, lambda q: X if q == ("cparam", 1) else None))
            calls = [(rx(tm2), canon_guard(cb.guard(b2))) for b2, t2, tm2 in cb.real_calls()]
            views.append({"kind": "map", "source": render(strip_iter(tm[2][0])), "calls": calls, "yields": [rx(cb.return_term())], "site": t["sp"],
                          "complete": True})
    nexts = [(bi, t, tm) for bi, t, tm in b.real_calls() if tm[1].endswith("Iterator::next") and len(tm[2]) == 1]
    for bn, t, nt in nexts:
        elem = mir.mk_proj(nt, ("as:Some", "0"))

        def in_loop(g):
            return bool(g) and all(any(a[0] == "is" and a[1] == nt and a[2] == frozenset(["Some"]) for a in conj) for conj in g)

        def strip(g):
            return frozenset(frozenset(a for a in conj if not (a[0] == "is" and a[1] == nt)) for conj in g)

        def rx(term):
            def f(q):
                if q == elem:
                    return X
                if q[0] == "proj" and q[1] == nt and q[2][:2] == ("as:Some", "0"):
                    return mir.mk_proj(X, q[2][2:])
                return None
            return render(mir.subst(term, f))
        def rx_guard(g):
            """canonical guard with the element written $x"""
            def f(q):
                if q == elem:
                    return X
                if q[0] == "proj" and q[1] == nt and q[2][:2] == ("as:Some", "0"):
                    return mir.mk_proj(X, q[2][2:])
                return None
            return canon_guard(frozenset(frozenset((a[0], mir.subst(a[1], f)) + tuple(a[2:]) for a in conj) for conj in g))
        calls, yields, pushes = [], [], []
        for b2, t2, tm2 in b.real_calls():
            if tm2 == nt or not in_loop(b.guard(b2)):
                continue
            if mir._strip_generics(tm2[1]).endswith("Vec::push") and len(tm2[2]) == 2:
                yields.append(rx(tm2[2][1]))
                pushes.append((tm2[2][0], rx(tm2[2][1]), rx_guard(strip(b.guard(b2)))))
                continue
            calls.append((rx(tm2), rx_guard(strip(b.guard(b2)))))
        if calls or yields:
            views.append({"kind": "loop", "source": render(strip_iter(nt[2][0])), "source_term": strip_iter(nt[2][0]), "calls": calls,
                          "yields": yields, "pushes": pushes, "site": t["sp"],
                          # every element is visited: the body never leaves the loop (`break` / `return`)
                          "complete": loop_body_always_continues(b, nt)})
    return views


def unary_result(ctx, callable_term):
    """what a one-argument callable (closure literal or function item, e.g. `.map(|W(x)| x)` / `.map(W::into_item)`) returns,
    rendered with its argument written `$1`; None if it cannot be summarised"""
    if callable_term[0] == "agg" and callable_term[1].startswith("closure:"):
        cb, _ = mir.closure_body(ctx.facts, callable_term)
        return render(cb.return_term()) if cb else None
    if callable_term[0] == "fnitem":
        rec = ctx.facts.bodies.get(callable_term[1])
        if rec is None or rec["argc"] != 1:
            return None
        fb = ctx.ibody(callable_term[1])
        return render(mir.subst(fb.return_term(), lambda q: ("cparam", 1) if q[0] == "param" and q[1] == 1 else None))
    return None


def drop_never(t):
    """remove impossible alternatives (`<never>`: payload of a variant the value is known not to be) from phi nodes"""
    def f(q):
        if q[0] == "phi":
            alts = tuple(sorted(set(x for x in (drop_never(a) for a in q[1]) if x != ("never",)), key=repr))
            if not alts:
                return ("never",)
            if len(alts) == 1:
                return alts[0]
            return ("phi", alts) + tuple(q[2:])
        if q[0] == "proj":
            base = drop_never(q[1])
            if base != q[1]:
                return mir.mk_proj(base, q[2])
        return None
    return mir.subst(t, f)


def _try_kind(b, call):
    try:
        selfty = b.blocks[call[3]]["term"]["f"]["args"][0]
    except Exception:
        return None
    return "Result" if selfty.startswith("std::result::Result<") else ("Option" if selfty.startswith("std::option::Option<") else None)


def untry_guard(b, g):
    """guard with `?` read through: `Try::branch(X) is Continue|Break` becomes `X is Some|None` / `Ok|Err`; atoms decided by a
    literal variant are evaluated (a conjunction containing a false one is dropped)"""
    out = set()
    for conj in g:
        c2, dead = set(), False
        for a in conj:
            if a[0] == "is" and a[1][0] == "call" and a[1][1].endswith("Try::branch") and len(a[1]) > 3:
                k = _try_kind(b, a[1])
                if k:
                    names = set()
                    for n in a[2]:
                        names.add({"Continue": "Some" if k == "Option" else "Ok", "Break": "None" if k == "Option" else "Err"}.get(n, n))
                    a = ("is", untry(b, a[1][2][0]), frozenset(names), "std::%s::%s" % (k.lower(), k), a[4])
            else:
                a = (a[0], untry(b, a[1])) + tuple(a[2:])
            if a[0] == "is" and a[1][0] == "agg" and a[1][1].startswith("adt:"):
                if a[1][1].rsplit("::", 1)[-1] in a[2]:
                    continue
                dead = True
                break
            c2.add(a)
        if not dead:
            out.add(frozenset(c2))
    return mir.simplify_dnf(out) if out else frozenset()


def untry(b, term):
    """`expr?` read as a value: Try::branch(X).as:Continue.0 becomes the Ok / Some payload of X (so `x.map(f)?` and
    `f(x?)` denote the same term); X's Result / Option type is read from the call site's own type arguments"""
    def f(q):
        if q[0] == "proj" and q[1][0] == "call" and q[1][1].endswith("Try::branch") and q[2][:2] == ("as:Continue", "0") and len(q[1]) > 3:
            site = q[1][3]
            try:
                selfty = b.blocks[site]["term"]["f"]["args"][0]
            except Exception:
                return None
            v = "as:Ok" if selfty.startswith("std::result::Result<") else ("as:Some" if selfty.startswith("std::option::Option<") else None)
            if v is None:
                return None
            # (projecting distributes over alternatives and can create new readable / infeasible payload reads: read those too)
            return mir.subst(mir.mk_proj(untry(b, q[1][2][0]), (v, "0") + tuple(q[2][2:])), f)
        # the early-return value of `x?` is an Err / a None: reading its Ok / Some payload is an infeasible alternative
        if q[0] == "proj" and q[1][0] == "call" and q[1][1].endswith("FromResidual::from_residual") and q[2] and q[2][0] in ("as:Ok", "as:Some"):
            return ("never",)
        # the early-return value of `opt?`: None
        if q[0] == "call" and q[1].endswith("FromResidual::from_residual") and len(q[2]) == 1:
            r = q[2][0]
            if r[0] == "proj" and r[1][0] == "call" and r[1][1].endswith("Try::branch") and r[2][:2] == ("as:Break", "0") and \
                    _try_kind(b, r[1]) == "Option":
                return ("agg", "adt:std::option::Option::None", (), ())
        return None
    return mir.subst(term, f)


# ---------------------------------------------------------------------------------------------
# iterator pipelines in normal form
# ---------------------------------------------------------------------------------------------
_X = ("const", "$x", "?")
_PASS = ("iter", "into_iter", "iter_mut", "by_ref", "cloned", "copied", "peekable", "fuse")


def apply_callable(ctx, c, arg=_X):
    """the term a one-argument callable (closure literal / fn item) yields for `arg`, in the enclosing function's vocabulary"""
    if c[0] == "agg" and c[1].startswith("closure:"):
        cdef = c[1][len("closure:"):]
        if cdef not in ctx.facts.bodies:
            return None
        cb = ctx.ibody(cdef)
        t = mir.in_closure(ctx.facts, c, cb.return_term())
        return mir.subst(t, lambda q: arg if q == ("cparam", 1) else None)
    if c[0] == "fnitem":
        return ("call", c[1], (arg,), None)
    return None


def _pred_conj(ctx, t):
    """canonical rendering of a boolean term as a sorted list of conjuncts (comparisons canonically oriented)"""
    out = []

    def go(q):
        if q[0] == "phi":
            out.append(render(q))
            return
        c = atoms.cmp_term(q)
        if c:
            op, x, y = atoms.canon_cmp(*c)
            if op in ("eq", "ne"):
                x, y = sorted((x, y), key=render)
            out.append("%s(%s, %s)" % (op, render(x), render(y)))
        else:
            out.append(render(q))
    go(t)
    return sorted(out)


def _option_closure(ctx, c):
    """a closure `|x| cond(x).then_some(value(x))` (any spelling: then_some / then / if-else / match): returns
    ([canonical conjuncts of cond], rendered value), in the enclosing function's vocabulary with the element as $x"""
    if not (c[0] == "agg" and c[1].startswith("closure:")):
        return None
    cdef = c[1][len("closure:"):]
    if cdef not in ctx.facts.bodies:
        return None
    cb = ctx.ibody(cdef)

    def tr(t):
        return mir.subst(mir.in_closure(ctx.facts, c, t), lambda q: _X if q == ("cparam", 1) else None)
    some, none = [], []
    for g, t, bi in cb.expanded_cases(0):
        if t[0] == "agg" and t[1].endswith("Option::Some"):
            some.append((g, t))
        elif t[0] == "agg" and t[1].endswith("Option::None"):
            none.append((g, t))
        else:
            return None
    if len(some) != 1 or len(some[0][0]) != 1:
        return None
    conj = next(iter(some[0][0]))
    atoms_ = []
    for a in conj:
        a2 = (a[0], tr(a[1])) + tuple(a[2:])
        atoms_.append(canon_atom(a2))
    return sorted(atoms_), render(tr(some[0][1][3][0]))


def _bool_closure(ctx, c):
    """canonical conjuncts under which a predicate closure returns true (single-conjunction predicates only)"""
    if not (c[0] == "agg" and c[1].startswith("closure:")):
        return None
    cdef = c[1][len("closure:"):]
    if cdef not in ctx.facts.bodies:
        return None
    cb = ctx.ibody(cdef)

    def tr(t):
        return mir.subst(mir.in_closure(ctx.facts, c, t), lambda q: _X if q == ("cparam", 1) else None)
    cases = cb.expanded_cases(0)
    if len(cases) == 1 and cases[0][0] == frozenset([frozenset()]):
        return _pred_conj(ctx, tr(cases[0][1]))
    true_cases = [(g, t) for g, t, bi in cases if not (t[0] == "const" and t[1] in ("0", "false"))]
    if len(true_cases) == 1 and len(true_cases[0][0]) == 1:
        g, t = true_cases[0]
        out = [canon_atom((a[0], tr(a[1])) + tuple(a[2:])) for a in next(iter(g))]
        if not (t[0] == "const" and t[1] in ("1", "true")):
            out += _pred_conj(ctx, tr(t))
        return sorted(out)
    return None


def pipeline(ctx, term, depth=0):
    """(source, stages, sink) of a lazy iterator expression, normalised:
       filter_map(|x| p(x).then_some(g(x)))  ==  filter(p).map(g);   find_map(f) == filter_map(f) + first;
       find(p).map(g) == filter(p).map(g) + first;   flat_map(|x| inner(x).st..) == flat(inner).st..  (st not using x);
       .iter() / .into_iter() / .cloned() / .copied() are transparent.
    stages: [("filter", [conjuncts]) | ("map", rendered) | ("filter_map", rendered) | ("flat", rendered inner source)]"""
    rev = []
    sink = None
    t = term
    for _ in range(40):
        while t[0] == "mutated":
            t = t[1]
        if t[0] != "call" or not t[2]:
            break
        name = mir._strip_generics(t[1]).rsplit("::", 1)[-1]
        is_iter = "Iterator::" in t[1] or "IntoIterator::" in t[1] or "::iter" in t[1] or "Itertools" in t[1]
        recv = t[2][0]
        if name in _PASS and len(t[2]) == 1:
            t = recv
            continue
        if name == "map" and "Option::" in t[1] and len(t[2]) == 2:
            # Option::map over a `find`: a map stage before taking the first element
            inner = recv
            while inner[0] == "mutated":
                inner = inner[1]
            if inner[0] == "call" and mir._strip_generics(inner[1]).rsplit("::", 1)[-1] in ("find", "find_map", "next"):
                r = apply_callable(ctx, t[2][1])
                if r is None:
                    break
                rev.append(("map", render(r)))
                t = recv
                continue
            break
        if not is_iter:
            break
        if name in ("map", "filter", "filter_map", "find", "find_map", "flat_map") and len(t[2]) == 2:
            r = apply_callable(ctx, t[2][1])
            if r is None:
                break
            if name in ("find", "find_map"):
                sink = "first"
            if name == "map":
                rev.append(("map", render(r)))
            elif name in ("filter", "find"):
                pc = _bool_closure(ctx, t[2][1])
                rev.append(("filter", pc if pc is not None else _pred_conj(ctx, r)))
            elif name in ("filter_map", "find_map"):
                fm = _option_closure(ctx, t[2][1])
                if fm is not None:
                    rev.append(("map", fm[1]))
                    rev.append(("filter", fm[0]))
                else:
                    rev.append(("filter_map", render(r)))
            elif name == "flat_map":
                isrc, istages, isink = pipeline(ctx, r, depth + 1) if depth < 3 else (r, [], None)
                for st in reversed(istages):
                    rev.append(st)
                rev.append(("flat", render(isrc)))
            t = recv
            continue
        if name in ("collect", "next", "last", "count") and len(t[2]) == 1:
            sink = sink or name
            t = recv
            continue
        break
    return t, list(reversed(rev)), sink


def first_match(ctx, term, guard=None):
    """`term` = payload taken from the first element a pipeline yields (`SRC.find_map(f)` / `SRC.find(p).map(g)` / with the
    Option::map inlined: `SRC.find(p).as:Some.0.<proj>`): returns (rendered collection, filter conjuncts, rendered value as
    a function of the matching element $x) or None"""
    rest = ()
    t = term
    if t[0] == "proj":
        rest = tuple(t[2])
        t = t[1]
    if rest[:2] != ("as:Some", "0"):
        return None
    rest = rest[2:]
    while t[0] == "mutated":
        t = t[1]
    if t[0] != "call" or mir._strip_generics(t[1]).rsplit("::", 1)[-1] not in ("find", "find_map", "next"):
        return None
    if mir._strip_generics(t[1]).rsplit("::", 1)[-1] == "next":
        # loop form: `for x in SRC { if cond(x) { return Ok(val(x)) } } Err(..)` - the condition is the guard of the returning case
        if guard is None or len(guard) != 1:
            return None
        elem = mir.mk_proj(t, ("as:Some", "0"))

        def fx(q):
            if q == elem:
                return _X
            if q[0] == "proj" and q[1] == t and q[2][:2] == ("as:Some", "0"):
                return mir.mk_proj(_X, q[2][2:])
            return None
        filt = []
        for a in next(iter(guard)):
            if a[0] == "is" and a[1] == t:
                if a[2] != frozenset(["Some"]):
                    return None
                continue
            filt.append(canon_atom((a[0], mir.subst(a[1], fx)) + tuple(a[2:])))
        val = "$x"
        for e in rest:
            val = val + "." + e
        return render(strip_iter(t[2][0])), sorted(filt), val
    src, stages, sink = pipeline(ctx, t)
    filt = sorted(x for st in stages if st[0] == "filter" for x in st[1])
    maps = [st[1] for st in stages if st[0] == "map"]
    if any(st[0] not in ("filter", "map") for st in stages) or len(maps) > 1:
        return None
    val = maps[0] if maps else "$x"
    for e in rest:
        val = val + "." + e
    return render(strip_iter(src)), filt, val


def origin_read(b, op):
    """follow an operand back through copies of locals to the statement that actually READS memory (a place with a
    projection): (block, statement index, rendered place) or None"""
    p = op.get("c") or op.get("m") if isinstance(op, dict) else None
    hops = 0
    if p is not None and p["p"]:
        return None
    while p is not None and not p["p"] and hops < 16:
        ds = b.defs.get(p["l"], [])
        if len(ds) != 1 or ds[0][2] != "stmt" or ds[0][3]["rv"]["r"] != "use":
            return None
        o = ds[0][3]["rv"]["o"]
        q = o.get("c") or o.get("m")
        if q is None:
            return None
        if q["p"]:
            return (ds[0][0], ds[0][1], render(b.place_term(q)))
        p = q
        hops += 1
    return None


def _paths(ty):
    return re.findall(r"[A-Za-z_][A-Za-z0-9_]*(?:::[A-Za-z_][A-Za-z0-9_]*)+", ty)


def typed_into(ctx, target_adt, src_ty):
    """`value.into()` into `target_adt` decided by TYPE: the derived `From<Src>` impl of the target whose source type matches
    `src_ty` (derived From impls wrap the value in the one variant that carries that type).  Returns the impl's `from` def or None"""
    cands = []
    want = _paths(src_ty)
    for imp in ctx.facts.impls:
        if imp.get("self_adt") != target_adt or imp.get("trait") != "std::convert::From" or not imp.get("derived"):
            continue
        m = re.search(r" as std::convert::From<(.*)>>$", imp.get("trait_ref", ""))
        if not m:
            continue
        have = _paths(m.group(1))
        # how many leading type paths of the impl's source type occur, in order, in the concrete type (generic parameters carry no
        # path; defaulted type arguments are elided in the concrete type's printed form)
        k, it = 0, iter(want)
        for h in have:
            if any(h == w for w in it):
                k += 1
            else:
                break
        if have and want and have[0] == want[0] and (k == len(have) or k == len(want)):
            cands.append((k, imp["items"][0]["def"]))
    cands.sort(reverse=True)
    if not cands or (len(cands) > 1 and cands[0][0] == cands[1][0]):
        return None         # no match, or not unique: undecided
    return cands[0][1]


def resolve_event_ctor(ctx, body, term):
    """`AccountEvent::new(exchange, payload)` read as the record it builds: {exchange, kind: <the variant chosen by the payload's
    type through the derived From impl>(payload)} - so the constructor call and the struct literal are the same term"""
    new_ok = None

    def f(q):
        nonlocal new_ok
        if q[0] == "call" and mir.short(q[1]) == "AccountEvent::new" and len(q[2]) == 2 and len(q) > 3 and q[3] is not None:
            if new_ok is None:
                nb = ctx.ibody(q[1])
                new_ok = render(nb.return_term()) == "AccountEvent::AccountEvent{exchange: exchange, kind: Into::into(kind)}"
            try:
                k_ty = body.blocks[q[3]]["term"]["f"]["args"][-1]
            except Exception:
                return None
            imp = typed_into(ctx, "barter_execution::AccountEventKind", k_ty) if new_ok else None
            if imp is None:
                return None
            fr = ctx.ibody(imp).return_term()
            if fr[0] != "agg" or len(fr[3]) != 1:
                return None
            return ("agg", "adt:barter_execution::AccountEvent::AccountEvent", ("exchange", "kind"),
                    (mir.subst(q[2][0], f), ("agg", fr[1], fr[2], (mir.subst(q[2][1], f),))))
        return None
    return mir.subst(term, f)


def at_call(ctx, call_term, norm=None):
    """the return cases of a workspace callee AT one of its call sites: [(guard, term)] in the CALLER's vocabulary (the callee's
    parameters replaced by the arguments of this call).  Whether a value reaches the callee through `self` or as an explicit
    argument (`self.helper(x)` vs `Self::helper(&self.field, x)`) makes no difference in this view."""
    callee = call_term[1]
    if callee not in ctx.facts.bodies:
        return None
    cb = ctx.ibody(callee)
    out = []
    for g, t, bi in cb.expanded_cases(0):
        if norm is not None:
            t = norm(cb, t)       # (normalisations that need the callee's own call-site types run before the arguments are put in)
        g2 = frozenset(frozenset((a[0], mir.subst_params(a[1], call_term[2])) + tuple(a[2:]) for a in conj) for conj in g)
        out.append((g2, mir.subst_params(t, call_term[2])))
    return out


def rename_term(t, target, replacement):
    """replace every occurrence of `target` in `t` by `replacement`, including occurrences as the prefix of a longer access
    path (projections are stored flattened, so `target.field` does not contain `target` as a sub-term)"""
    def f(q):
        if q == target:
            return replacement
        if target[0] == "proj" and q[0] == "proj" and q[1] == target[1] and len(q[2]) > len(target[2]) and q[2][:len(target[2])] == target[2]:
            return mir.mk_proj(replacement, q[2][len(target[2]):])
        if target[0] != "proj" and q[0] == "proj" and q[1] == target:
            return mir.mk_proj(replacement, q[2])
        return None
    return mir.subst(t, f)


def loop_body_always_continues(b, next_term):
    """the loop driven by `next_term` (an Iterator::next call term) is left only by exhaustion: from the entry of its body
    (the `Some` edge) every path comes back to the loop head - no `break` / `return` inside the body"""
    bn = None
    for bi, t, tm in b.real_calls():
        if tm == next_term:
            bn = bi
    if bn is None:
        return False
    heads = [h for h in b.reachable if b.blocks[h]["term"]["t"] == "false_unwind" and b.dominates(h, bn)]
    if not heads:
        return False
    head = max(heads, key=lambda h: sum(1 for k in heads if b.dominates(k, h)))
    entry = None
    for x in b.reachable:
        if b.blocks[x]["term"]["t"] == "switch":
            for lab, y in b.succ[x]:
                ea = b.edge_atom(x, lab)
                if ea[0] == "is" and ea[1] == next_term and ea[2] == frozenset(["Some"]):
                    entry = y
    if entry is None:
        return False
    seen, stack = set(), [entry]
    while stack:
        z = stack.pop()
        if z in seen or z == head:
            continue
        if z == mir.EXIT:
            return False
        seen.add(z)
        stack.extend(y for _, y in b.succ[z])
    return True


def resolve_calls(ctx, term, pred, depth=2):
    """replace calls of workspace functions selected by `pred(callee path)` by what they return at that call site (single-case
    callees only) - e.g. a `From` conversion that builds a record from the fields of its argument"""
    def f(q):
        if q[0] == "call" and q[1] in ctx.facts.bodies and pred(q[1]) and depth > 0:
            cs = at_call(ctx, q)
            if cs and len(cs) == 1:
                return resolve_calls(ctx, cs[0][1], pred, depth - 1)
        return None
    return mir.subst(term, f)


def instrument_feeds_own(ctx):
    """InstrumentState::update_from_trade hands the fill to its own position manager, feeds the closed record (if any) to its own
    tear sheet, and returns that record unchanged - nothing is dropped or altered on the way out (shared by C02 and C16)"""
    IS = "barter::engine::state::instrument::InstrumentState"
    b = ctx.fibody(name="update_from_trade", self_adt=IS, trait="")
    pm = "PositionManager::update_from_trade(self.position, trade)"
    ups = [(bi, render(tm), canon_guard(b.guard(bi))) for bi, t, tm in b.real_calls() if mir.short(tm[1]) == "TearSheetGenerator::update_from_position"]
    ok = len(ups) == 1 and ups[0][1] == "TearSheetGenerator::update_from_position(self.tear_sheet, %s.as:Some.0)" % pm and \
        ups[0][2] == "(%s is Some)" % pm and render(b.return_term()) == pm
    ctx.check("InstrumentState::update_from_trade", ok,
              "the closed-position record of this instrument's position manager feeds this instrument's own tear sheet, exactly "
              "when a position was closed, and is returned unchanged", got=[x[1:] for x in ups] + [render(b.return_term())[:120]], key="feeds-own")


def channel_passthrough(ctx):
    """the workspace's channel wrappers add nothing to tokio's unbounded mpsc channel: one channel per `mpsc_unbounded()`, `send`
    hands the item itself to the sender, the receiver's Stream / into_stream forms poll the receiver itself - so order and
    exactly-once delivery are tokio's (an added buffer, batch or filter on either end would be the workspace's own)"""
    want = {
        "<barter_integration::channel::UnboundedRx<T> as futures::Stream>::poll_next": ({"true": ["UnboundedReceiver::poll_recv(self.rx, cx)"]}, ["UnboundedReceiver::poll_recv"]),
        "barter_integration::channel::UnboundedRx::<T>::into_stream": ({"true": ["UnboundedReceiverStream::new(self.rx)"]}, []),
        "<barter_integration::channel::UnboundedTx<T> as barter_integration::channel::Tx>::send": (None, []),
        "<barter_integration::channel::UnboundedTx<T> as futures::Sink<T>>::start_send": (None, []),
        "barter_integration::channel::mpsc_unbounded":
            ({"true": ["tuple{0: UnboundedTx::UnboundedTx{tx: mpsc::unbounded_channel().0}, 1: UnboundedRx::UnboundedRx{rx: mpsc::unbounded_channel().1}}"]}, []),
    }
    n = 0
    for d, (tab, muts) in want.items():
        if d not in ctx.facts.bodies:
            raise Exception("anchor not found: " + d)
        b = ctx.ibody(d)
        got_tab = case_table(b)
        got_muts = [mir.short(tm[1]) for bi, t, tm in b.real_calls() if b.mut_args(t)]
        sends = [render(tm) for bi, t, tm in b.real_calls() if mir.short(tm[1]) == "UnboundedSender::send"]
        if tab is None:
            ok = sends in (["UnboundedSender::send(self.tx, item)"], ["UnboundedSender::send(self.tx, Into::into(item))"]) and got_muts == muts and \
                all(b.guard(bi) == frozenset([frozenset()]) for bi, t, tm in b.real_calls() if mir.short(tm[1]) == "UnboundedSender::send")
            got = sends
        else:
            ok = got_tab == tab and got_muts == muts
            got = {"returns": got_tab, "mutating calls": got_muts}
        n += 1
        ctx.check(mir.short(d), ok, "a plain pass-through to the tokio channel end it wraps (no buffering, batching, filtering or reordering of its own)",
                  got=got, key="channel-passthrough")
    ctx.floor("channel wrapper functions", n, 5)


def position_from_trade(ctx):
    """the position a fill OPENS (first fill, or the remainder of a flip): every figure is the fill's own - side, price, |quantity|
    as both the current and the peak size, the entry fee booked as realised cost, the fill's time (the unrealised estimate is C15.R6's)"""
    POS = "barter::engine::state::position::Position"
    b = ctx.ibody(ctx.find(name="from", self_adt=POS, trait="std::convert::From"))
    rt = b.return_term()
    f = {k: render(v) for k, v in zip(rt[2], rt[3])} if rt[0] == "agg" else {}
    p = b.param_name(1)
    want = {"instrument": "%s.instrument", "side": "%s.side", "price_entry_average": "%s.price", "quantity_abs": "Decimal::abs(%s.quantity)",
            "quantity_abs_max": "Decimal::abs(%s.quantity)", "pnl_realised": "Neg::neg(%s.fees.fees)", "fees_enter": "%s.fees",
            "time_enter": "%s.time_exchange", "time_exchange_update": "%s.time_exchange"}
    want = {k: v % p for k, v in want.items()}
    got = {k: f.get(k) for k in want}
    ctx.check("Position::from(&Trade)", got == want and "Decimal::ZERO" in f.get("fees_exit", ""),
              "a position opened by a fill takes side, price, |quantity| (current AND peak), entry fee (as realised cost) and time from that fill; "
              "no exit fees yet", got={k: v for k, v in got.items() if want[k] != v} or f.get("fees_exit"), key="opened-from-fill")


def callable_return(ctx, c):
    """return term of a callable handed to an adaptor - a closure literal OR a named function item - in one vocabulary: the
    callable's own arguments are written `$1`, `$2`, .. and captured variables are replaced by the captured values.  None if `c`
    is neither (so `.map(|x| f(x))` and `.map(named_fn)` with `fn named_fn(x) { f(x) }` read the same)"""
    if c[0] == "agg" and c[1].startswith("closure:"):
        cb, _ = mir.closure_body(ctx.facts, c)
        return mir.in_closure(ctx.facts, c, cb.return_term()) if cb else None
    if c[0] == "fnitem" and c[1] in ctx.facts.bodies:
        fb = ctx.ibody(c[1])
        n = fb.argc
        return mir.subst_params(fb.return_term(), [("cparam", i + 1) for i in range(n)])
    return None


def processing_sites(calls):
    """the places where a runner processes one event and turns the output into an audit record: a call of the helper
    `process_with_audit(engine, event)` or its body `engine.audit(engine.process(event))` written out.
    Returns [(block, terminator, the call term whose value is the audit record, engine term, event term)]"""
    out = []
    for bi, t, tm in calls:
        if mir.short(tm[1]) == "engine::process_with_audit" and len(tm[2]) == 2:
            out.append((bi, t, tm, tm[2][0], tm[2][1]))
        elif tm[1].endswith("Auditor::audit") and len(tm[2]) == 2 and tm[2][1][0] == "call" and tm[2][1][1].endswith("Processor::process") \
                and len(tm[2][1][2]) == 2 and tm[2][1][2][0] == tm[2][0]:
            out.append((bi, t, tm, tm[2][0], tm[2][1][2][1]))
    return out
