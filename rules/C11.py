"""C11 - instrument/asset/exchange indices are dense, unique and consistently resolved."""
from rules import common_idx

EXPLANATION = (
    "Index-space discipline on MIR: (IDX.R3) IndexedInstrumentsBuilder::build sorts and dedups each vector BEFORE "
    "enumerate and keys every element by its own position, resolving instrument exchange/asset keys against the "
    "already-indexed vectors with the instrument's own exchange; (IDX.R1/R2) every engine/connectivity/execution/"
    "statistics table that is accessed positionally with an index is filled from the same index space through "
    "order- and length-preserving adapters only and is never shifted; (IDX.R7) IndexedInstruments is frozen after "
    "construction; (IDX.R8) element ordering is the derived structural Ord, so the result is a function of the multiset."
)
NOT_DECIDED = ["collisions of user-chosen internal names across exchanges (documented precondition)",
               "sort/dedup/enumerate library semantics"]
ASSUMPTIONS = ["Vec::sort/dedup/enumerate, indexmap insertion order",
               "InstrumentNameInternal is unique across exchanges (documented in barter-instrument/src/instrument/name.rs, NOT enforced by "
               "the builder): InstrumentStates is keyed by it, so two distinct instruments sharing an internal name collapse into one "
               "state and later positions shift - findings/observation_C11_name_collision.rs; treated as a violated precondition, see DESIGN 11.10"]
TECHNIQUE = "index-space discipline: builder ordering (dominance), aligned-table fill chains, who-may-write"



def r1(ctx):
    # the per-exchange execution map is C04's anchor (reported there); C11 covers engine-side tables
    common_idx.idx_r1(ctx, exclude_adts=("barter_execution::map::ExecutionInstrumentMap",), floor=11)


RULES = [
    ("IDX.R1", "positional use of a global index only on tables aligned with IndexedInstruments", r1),
    ("IDX.R2", "aligned tables: reviewed constructors, order/length-preserving fill chain, never shifted", common_idx.idx_r2),
    ("IDX.R3", "builder: sort -> dedup -> enumerate; key = position; keys resolved on the indexed vectors", common_idx.idx_r3),
    ("IDX.R7", "IndexedInstruments is private and written only by the builder", common_idx.idx_r7),
    ("IDX.R8", "sorting uses derived structural Ord/PartialEq (order independence)", common_idx.idx_r8),
    ("IDX.R9", "IndexedInstruments lookups: first match over the full vector; key <-> value inverses", common_idx.idx_r9),
    ("IDX.R10", "add_instrument registers the exchange, the instrument and every asset it refers to", common_idx.idx_r10),
    ("IDX.R11", "key translation is role-preserving: each rebuilt field comes from the same field of the source", common_idx.idx_r11),
    ("IDX.R12", "by-name state tables are keyed by the indexed entity's own name", common_idx.idx_r12),
    ("IDX.R13", "execution-link table: each indexed exchange gets the transmitter registered under its own id (keyed lookup)", common_idx.idx_r13),
]
