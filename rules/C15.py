"""C15 - unrealised PnL of an open position tracks the instrument's latest price."""
import sympy

from sa import atoms, formula, mir, whomay
from sa.mir import render, render_guard
from rules import common

EXPLANATION = (
    "Must-reach rule over the call graph: every path through the engine's market-event entry point "
    "(EngineState::update_from_market, shared by engine and replica) reaches Position::update_pnl_unrealised with "
    "the instrument's price read AFTER the event was processed, guarded by nothing but 'a position is open' and "
    "'a price is known'; every arm of Position::update_from_trade re-evaluates the estimate at the fill price after "
    "its last write to the position's quantity/entry fields; the estimate's formula and the argument roles are "
    "compared (sympy-normalised leaf formula) with the documented estimate."
)
NOT_DECIDED = ["user InstrumentDataState::price implementations", "decimal rounding"]
ASSUMPTIONS = ["rust_decimal operator impls are the arithmetic operators"]

ES = "barter::engine::state::EngineState"
IS = "barter::engine::state::instrument::InstrumentState"
POS = "barter::engine::state::position::Position"


def _accepted(atom):
    """guards that may stand between a market event and the PnL refresh"""
    if atom[0] != "is" or atom[2] != frozenset(["Some"]):
        return False
    t = atom[1]
    r = render(t)
    if atoms.ends_with(t, "position", "current") or r.endswith("position.current"):
        return True
    if t[0] == "call" and t[1].endswith("InstrumentDataState::price"):
        return True
    return False


def _must_reach(ctx, defn, target, depth, trail):
    """call sites through which every execution of `defn` (modulo accepted guards) reaches `target`"""
    b = ctx.ibody(defn)
    for bi, t, term in b.real_calls():
        g = b.guard(bi)
        if not all(_accepted(a) for conj in g for a in conj) or len(g) != 1:
            continue
        if term[1] == target:
            return trail + [(defn, bi, t, term)]
        if depth > 0 and term[1] in ctx.facts.bodies and term[1] != defn:
            r = _must_reach(ctx, term[1], target, depth - 1, trail + [(defn, bi, t, term)])
            if r:
                return r
    return None


def r1(ctx):
    entry = ctx.find(name="update_from_market", self_adt=ES, trait="")
    target = ctx.find(name="update_pnl_unrealised", self_adt=POS, trait="")
    trail = _must_reach(ctx, entry, target, 2, [])
    ctx.check("EngineState::update_from_market", trail is not None,
              "every market event applied to the engine state must reach Position::update_pnl_unrealised "
              "(guarded only by 'position open' and 'price known')",
              sites=[ctx.facts.bodies[entry]["span"]],
              got=[mir.short(c[1]) for _, _, c in ctx.ibody(entry).real_calls()],
              want="a call chain (depth <= 2) to Position::update_pnl_unrealised", key="must-reach")
    if trail:
        # the instrument whose data is processed is the event's own instrument
        d0, bi0, t0, term0 = trail[0]
        if len(trail) > 1:
            recv = render(term0[2][0])
            ctx.check("EngineState::update_from_market", "event.instrument" in recv and render(term0[2][1]) == "event",
                      "the refreshed instrument state is the one selected by the event's own instrument key",
                      sites=[t0["sp"]], got=render(term0), key="instrument")


def r2(ctx):
    d = ctx.find(name="update_from_market", self_adt=IS, trait="")
    b = ctx.ibody(d)
    calls = b.real_calls()
    proc = [(bi, t, term) for bi, t, term in calls if term[1].endswith("Processor::process") and render(term[2][0]) == "self.data"]
    price = [(bi, t, term) for bi, t, term in calls if term[1].endswith("InstrumentDataState::price")]
    upd = [(bi, t, term) for bi, t, term in calls if term[1].endswith("::update_pnl_unrealised")]
    ok = len(proc) == 1 and len(price) == 1 and len(upd) == 1
    ctx.check("InstrumentState::update_from_market", ok, "process, price() and update_pnl_unrealised each occur once",
              got=[mir.short(c[1]) for _, _, c in calls], key="shape")
    if not ok:
        return
    (pb, pt, pterm), (qb, qt, qterm), (ub, ut, uterm) = proc[0], price[0], upd[0]
    ctx.check("InstrumentState::update_from_market", b.dominates(pb, qb) and pb != qb and b.dominates(qb, ub),
              "the price is read after the event is processed, and the PnL refresh uses that read",
              sites=[pt["sp"], qt["sp"], ut["sp"]], key="order")
    ctx.check("InstrumentState::update_from_market", render(pterm[2][1]) == "event" and render(qterm[2][0]) == "self.data",
              "process(event) and price() act on this instrument's own data", got=[render(pterm), render(qterm)], key="receiver")
    a0, a1 = uterm[2][0], uterm[2][1]
    ctx.check("InstrumentState::update_from_market",
              render(a0) == "self.position.current.as:Some.0" and a1 == mir.mk_proj(qterm, ("as:Some", "0")),
              "update_pnl_unrealised(position = self.position.current, price = the price just read)",
              sites=[ut["sp"]], got=render(uterm), key="args")
    g = b.guard(ub)
    ctx.check("InstrumentState::update_from_market", len(g) == 1 and all(_accepted(a) for c in g for a in c),
              "the refresh is skipped only when there is no position or no price", got=render_guard(g), key="guard")


FIELDS = ("quantity_abs", "price_entry_average", "fees_enter", "quantity_abs_max", "side")


def r3(ctx):
    d = ctx.find(name="update_from_trade", self_adt=POS, trait="")
    b = ctx.ibody(d)
    upd = [(bi, t, term) for bi, t, term in b.real_calls() if term[1].endswith("::update_pnl_unrealised")]
    ctx.floor("update_pnl_unrealised call sites in Position::update_from_trade", len(upd), 4)
    eff = common.effects(b, lambda p: p[0] == "proj" and p[1][0] == "param" and p[1][2] == "self" and p[2][0] in FIELDS)
    # self-mutating helper calls that were not inlined (`&mut self` helpers writing the entry price) count as writes too
    helper = [(bi, t, term) for bi, t, term in b.real_calls()
              if term[1].rsplit("::", 1)[-1].startswith("update_price") and b.mut_args(t)]
    for bi, t, term in upd:
        ctx.check("Position::update_from_trade@%s" % _arm(b, bi), render(term[2][1]) == "trade.price" and render(term[2][0]) == "self",
                  "after a fill the estimate is evaluated at the fill price", sites=[t["sp"]], got=render(term), key="arg")
        later = [e for e in eff if e["bi"] != bi and _reaches(b, bi, e["bi"])]
        later += [{"sp": t2["sp"], "what": mir.short(x[1])} for b2, t2, x in helper if _reaches(b, bi, b2)]
        ctx.check("Position::update_from_trade@%s" % _arm(b, bi), not later,
                  "update_pnl_unrealised comes after the arm's last write to quantity / entry price / entry fees",
                  sites=[t["sp"]] + [e["sp"] for e in later], got=[e["what"] for e in later], key="last")
    # every non-mismatch path to the return passes a refresh
    avoid = set(bi for bi, _, _ in upd)
    bad = []
    for ret in _returns_reachable_avoiding(b, avoid):
        g = b.guard(ret)
        mism = all(any(a[0] == "bool" and a[2] and a[1][0] == "call" and a[1][1].endswith("PartialEq::ne")
                       and {render(x) for x in a[1][2]} == {"self.instrument", "trade.instrument"} for a in conj)
                   for conj in g)
        if not mism:
            bad.append(ret)
    ctx.check("Position::update_from_trade", not bad,
              "every path to a return (other than the instrument-mismatch rejection) re-evaluates the estimate",
              sites=[b.blocks[r]["term"]["sp"] for r in bad], got=[render_guard(b.guard(r)) for r in bad], key="all-paths")


def _arm(b, bi):
    g = b.guard(bi)
    parts = []
    for conj in g:
        for a in sorted(conj, key=repr):
            if a[0] == "is" and a[3].endswith("::Side"):
                parts.append("%s=%s" % (render(a[1]).split(".")[-1], "|".join(sorted(a[2]))))
            elif a[0] == "bool" and atoms.cmp_term(a[1]):
                c = atoms.atom_cmp(a)
                parts.append("%s(%s,%s)" % (c[0], render(c[1]), render(c[2])))
    return ",".join(sorted(set(parts))) or "bb%d" % bi


def _reaches(b, frm, to):
    seen = set()
    stack = [y for _, y in b.succ[frm] if y != mir.EXIT]
    while stack:
        x = stack.pop()
        if x in seen:
            continue
        seen.add(x)
        if x == to:
            return True
        stack.extend(y for _, y in b.succ[x] if y != mir.EXIT)
    return False


def _returns_reachable_avoiding(b, avoid):
    seen = set()
    stack = [0]
    rets = []
    while stack:
        x = stack.pop()
        if x in seen or x in avoid:
            continue
        seen.add(x)
        for lab, y in b.succ[x]:
            if y == mir.EXIT:
                if lab == ("ret",):
                    rets.append(x)
            else:
                stack.append(y)
    # report the blocks that assign the return value on those paths (more informative guards)
    out = []
    for r in rets:
        cands = [bi for (bi, si, k, s) in b.defs.get(0, []) if bi in seen]
        out.extend(cands or [r])
    return sorted(set(out))


def r4(ctx):
    f = ctx.find(path="barter::engine::state::position::calculate_pnl_unrealised")
    b = ctx.ibody(f)
    names = [b.param_name(i) for i in range(1, b.argc + 1)]
    want_names = ["position_side", "price_entry_average", "quantity_abs", "quantity_abs_max", "fees_enter", "price"]
    ctx.check("calculate_pnl_unrealised", names == want_names, "parameter roles", got=names, want=want_names, key="params")
    q, e, qm, fe, p = sympy.symbols("quantity_abs price_entry_average quantity_abs_max fees_enter price")
    want = {"Buy": q * p - q * e - (q / qm) * fe, "Sell": q * e - q * p - (q / qm) * fe}
    cases = formula.return_cases(b)
    seen = set()
    for g, term, bi in cases:
        side = None
        for conj in g:
            for a in conj:
                if a[0] == "is" and render(a[1]) == "position_side" and len(a[2]) == 1:
                    side = next(iter(a[2]))
        try:
            expr = formula.to_sympy(ctx.facts, term)
            ok = side in want and formula.equal(expr, want[side])
            got = str(expr)
        except formula.NotAFormula as ex:
            ok, got = False, "not a formula: %s" % ex
        seen.add(side)
        ctx.check("calculate_pnl_unrealised:%s" % side, ok,
                  "estimate = (+/-)(quantity*price - quantity*entry) - (quantity/quantity_max)*entry_fees",
                  sites=[ctx.site(b, bi)], got=got, want=str(want.get(side)), key="formula")
    ctx.check("calculate_pnl_unrealised", seen == {"Buy", "Sell"}, "one formula per side", got=sorted(map(str, seen)), key="arms")
    # argument roles at the single library call site
    u = ctx.fibody(name="update_pnl_unrealised", self_adt=POS, trait="")
    st = [s for s in u.stores()]
    ok = len(st) == 1 and render(st[0][2]) == "self.pnl_unrealised" and st[0][3][0] == "call" and st[0][3][1] == f
    ctx.check("Position::update_pnl_unrealised", ok, "stores calculate_pnl_unrealised(..) into self.pnl_unrealised",
              got=[(render(s[2]), render(s[3])) for s in st], key="store")
    if ok:
        args = [render(a) for a in st[0][3][2]]
        want_args = ["self.side", "self.price_entry_average", "self.quantity_abs", "self.quantity_abs_max",
                     "self.fees_enter.fees", "price"]
        ctx.check("Position::update_pnl_unrealised", args == want_args, "each argument feeds the parameter of the same role",
                  sites=[st[0][4]["sp"]], got=args, want=want_args, key="roles")


def r5(ctx):
    entry = ctx.find(name="update_from_market", self_adt=ES, trait="")
    cs = common.lib_callers(ctx.facts, entry)
    owners = sorted(set(mir.short(whomay.owner_fn(d)) for d, _, _ in cs))
    ctx.check("EngineState::update_from_market", "Engine::update_from_market_stream" in owners and
              "StateReplicaManager::update_from_event" in owners,
              "engine and replica apply market events through the same EngineState::update_from_market",
              sites=[sp for _, _, sp in cs], got=owners, key="shared")


def r8(ctx):
    """'never left at a value computed from an older price': the price the estimate is marked at comes from the default market
    data state, which must keep the NEWEST trade / quote - stored with its exchange time, replaced exactly when newer (= C09.R2);
    and the pro-rata exit-fee share divides by the peak size the opening fill set (|quantity|, shared constructor table)"""
    from rules import C09
    C09.r2(ctx)
    common.position_from_trade(ctx)


def r6(ctx):
    """a position OPENED by a fill (first fill, or the remainder of a flip) must carry the estimate at the fill price"""
    fr = ctx.find(name="from", self_adt=POS, trait="std::convert::From")
    b = ctx.ibody(fr)
    rt = b.return_term()
    f = dict(zip(rt[2], rt[3])) if rt[0] == "agg" else {}
    v = f.get("pnl_unrealised")
    ok = False
    got = render(v) if v is not None else None
    if v is not None:
        try:
            q, p, fe = sympy.Symbol("q", real=True), sympy.Symbol("p", real=True), sympy.Symbol("f", real=True)

            def sym(t):
                return {"trade.price": p, "trade.fees.fees": fe, "trade.quantity": q}.get(render(t))
            e = formula.to_sympy(ctx.facts, v, sym=sym)
            # estimate at the fill price: no price move, minus the pro-rata exit-fee estimate (q/qmax = 1) => -fees
            ok = formula.equal(e, -fe)
            got = str(e)
        except formula.NotAFormula as ex:
            got = "not a formula: %s" % ex
    upd = [tm for bi, t, tm in b.real_calls() if tm[1].endswith("::update_pnl_unrealised")]
    ok = ok or (len(upd) == 1 and render(upd[0][2][1]) == "trade.price")
    ctx.check("Position::from", ok,
              "a position opened by a fill carries the documented estimate at the fill price (0 price move minus the estimated exit "
              "fees = -entry fee), like every other fill path", sites=[ctx.facts.bodies[fr]["span"]], got=got, want="-trade.fees.fees",
              key="opening-fill")


def r7(ctx):
    MD = "barter::engine::state::instrument::data::DefaultInstrumentMarketData"
    b = ctx.ibody(ctx.find(name="price", self_adt=MD, trait="barter::engine::state::instrument::data::InstrumentDataState"))
    rt = b.return_term()
    mid = "OrderBookL1::volume_weighed_mid_price(self.l1)"
    ok = common.case_table(b) == {
        "(%s is Some)" % mid: ["Option::Some{0: %s.as:Some.0}" % mid],
        "(%s is None && self.last_traded_price is Some)" % mid: ["Option::Some{0: self.last_traded_price.as:Some.0.value}"],
        "(%s is None && self.last_traded_price is None)" % mid: ["Option::None{}"]}
    ctx.check("DefaultInstrumentMarketData::price", ok,
              "the default instrument price is the current top-of-book mid, else the last traded price, both read from the data just processed",
              got=render(rt)[:200], key="source")


RULES = [
    ("R7", "default InstrumentDataState::price reads the freshly processed market data", r7),
    ("R6", "a position opened by a fill carries the estimate at the fill price", r6),
    ("R1", "the engine's market path must reach Position::update_pnl_unrealised (call graph, accepted guards only)", r1),
    ("R2", "InstrumentState::update_from_market: process -> price() -> update_pnl_unrealised(price), in that order", r2),
    ("R3", "each arm of Position::update_from_trade refreshes the estimate at the fill price after its last write", r3),
    ("R4", "calculate_pnl_unrealised equals the documented estimate; argument roles at the call site", r4),
    ("R5", "engine and replica share the market-event entry point", r5),
    ("R8", "the marking price is the newest one (= C09.R2); the opening fill sets the peak size the fee share divides by", r8),
]
