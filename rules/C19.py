"""C19 - cancel-orders and close-positions commands act on exactly the filtered scope."""
from sa import atoms, mir, whomay
from sa.mir import render, render_guard
from rules import common, common_send

EXPLANATION = (
    "Per-variant decision tables extracted from MIR: InstrumentStates::filtered and filtered_mut select, per filter "
    "variant, by the documented field (exchange / instrument key / underlying) and agree arm by arm (sibling "
    "cross-check); Order::to_request_cancel yields no request for CancelInFlight, id None for OpenInFlight and "
    "Some(open.id) for Open, keyed by the order's own key; cancel_orders builds its requests from "
    "instruments.orders(filter) of the command's own filter and records only `.sent` in flight; the default close "
    "strategy iterates instruments(filter), requires position and price, flips the side, uses the position's quantity "
    "and instrument and the state's exchange; Engine::action dispatches each command to its action; the two actions "
    "mutate engine state only through record_in_flight_* (C03.R3)."
)
NOT_DECIDED = ["user ClosePositionsStrategy implementations", "OneOrMany::contains semantics"]
ASSUMPTIONS = ["Iterator::filter/flat_map/filter_map semantics"]
TECHNIQUE = "per-variant decision tables + sibling cross-check + provenance of request fields"

IS_ = "barter::engine::state::instrument::InstrumentStates"
ENG = common_send.ENG

WANT_FIELD = {"None": None, "Exchanges": "$1.instrument.exchange", "Instruments": "$1.key", "Underlyings": "$1.instrument.underlying"}


def _strip_either(t):
    while t[0] == "agg" and "Either::" in t[1] and len(t[3]) == 1:
        t = t[3][0]
    return t


def _filter_table(ctx, fn, src_name):
    b = ctx.fibody(name=fn, self_adt=IS_, trait="")
    tab = {}
    for g, term, bi in b.expanded_cases(0):
        names = common.variant_of(g, "filter")
        t = _strip_either(term)
        if names is None:
            continue
        for nm in names:
            if t[0] == "call" and t[1].endswith("Iterator::filter"):
                src = render(t[2][0])
                cb, _ = mir.closure_body(ctx.facts, t[2][1])
                p = mir.in_closure(ctx.facts, t[2][1], cb.return_term())
                if p[0] == "call" and p[1].endswith("::contains") and len(p[2]) == 2:
                    tab[nm] = (src, render(p[2][0]), render(p[2][1]))
                else:
                    tab[nm] = (src, "?", render(p))
            else:
                tab[nm] = (render(t), None, None)
    return b, tab


def r1(ctx):
    tabs = {}
    n = 0
    for fn, src in (("filtered", "IndexMap::values(self.0)"), ("filtered_mut", "IndexMap::values_mut(self.0)")):
        b, tab = _filter_table(ctx, fn, src)
        tabs[fn] = tab
        for variant, field in WANT_FIELD.items():
            got = tab.get(variant)
            if field is None:
                ok = got == (src, None, None)
                want = (src, None, None)
            else:
                want = (src, "filter.as:%s.0" % variant, field)
                ok = got == want
            n += 1
            ctx.check("InstrumentStates::%s:%s" % (fn, variant), ok,
                      "the %s filter keeps exactly the instruments whose %s is listed in the filter" % (variant, field or "(all)"),
                      got=got, want=want, key="arm")
    a = {k: v[1:] for k, v in tabs["filtered"].items()}
    m = {k: v[1:] for k, v in tabs["filtered_mut"].items()}
    ctx.check("InstrumentStates::filtered~filtered_mut", a == m, "the shared and the mutable filter agree arm by arm", got=(a, m), key="siblings")
    ctx.floor("filter arms", n, 8)
    # accessors built on the filter
    for fn, want in (("instruments", "InstrumentStates::filtered(self, filter)"), ("orders", None), ("instruments_mut", "InstrumentStates::filtered_mut(self, filter)")):
        fb = ctx.fibody(name=fn, self_adt=IS_, trait="")
        rt = fb.return_term()
        if want:
            ctx.check("InstrumentStates::" + fn, render(rt) == want, "is the filter applied to the given filter", got=render(rt), key="accessor")
        else:
            ok = rt[0] == "call" and rt[1].endswith("Iterator::map") and render(rt[2][0]) == "InstrumentStates::filtered(self, filter)"
            if ok:
                cb, _ = mir.closure_body(ctx.facts, rt[2][1])
                ok = render(cb.return_term()) == "$1.orders"
            ctx.check("InstrumentStates::orders", ok, "orders(filter) = the Orders of each filtered instrument", got=render(rt), key="accessor")


def r2(ctx):
    O = "barter_execution::order::Order"
    ds = [d for d in ctx.find(name="to_request_cancel", self_adt=O, allow_many=True)]
    b = ctx.ibody(ds[0])
    cases = common.expand_phi_cases(b, b.expanded_cases(0))
    tab = {}
    for g, term, bi in cases:
        names = common.variant_of(g, "self.state")
        for nm in names or ["?"]:
            tab.setdefault(nm, set()).add(render(term))
    want = {
        "OpenInFlight": {"Option::Some{0: OrderEvent::OrderEvent{key: self.key, state: RequestCancel::RequestCancel{id: Option::None{}}}}"},
        "Open": {"Option::Some{0: OrderEvent::OrderEvent{key: self.key, state: RequestCancel::RequestCancel{id: Option::Some{0: self.state.as:Open.0.id}}}}"},
        "CancelInFlight": {"Option::None{}"},
    }
    for k in want:
        ctx.check("Order::to_request_cancel:" + k, tab.get(k) == want[k],
                  "cancel request for a tracked order in state %s" % k, got=sorted(tab.get(k, [])), want=sorted(want[k]), key="arm")
    ctx.check("Order::to_request_cancel", set(tab) == set(want), "exactly the three tracked states are distinguished", got=sorted(tab), key="arms")


def r3(ctx):
    CO = "barter::engine::action::cancel_orders::CancelOrders"
    b = ctx.fibody(name="cancel_orders", self_adt=ENG, trait=CO)
    sends = [(bi, t, tm) for bi, t, tm in b.real_calls() if mir.short(tm[1]) == "Engine::send_requests"]
    ok = len(sends) == 1
    ctx.check("Engine::cancel_orders", ok, "one send", got=len(sends), key="one-send")
    if ok:
        arg = sends[0][2][2][1]
        src, stages, sink = common.pipeline(ctx, arg)
        inner = (render(src), stages, sink)
        SRC = "InstrumentStates::orders(self.state.instruments, filter)"
        ok = render(src) == SRC and sink is None and \
            stages in ([("flat", "Orders::orders($x)"), ("filter_map", "Order::to_request_cancel($x)")],
                       [("flat", "HashMap::values($x.0)"), ("filter_map", "Order::to_request_cancel($x)")])
        if not ok and arg[0] == "mutated" and all(c.endswith("::push") for c in arg[2]):
            # loop form: `for orders in <filtered instruments> { for order in orders.orders() { if let Some(r) = order.to_request_cancel()
            # { requests.push(r) } } }` - the same scope, spelt with loops
            vs = common.elementwise_views(ctx, ctx.find(name="cancel_orders", self_adt=ENG, trait=CO))
            outer = [v for v in vs if v["kind"] == "loop" and v["source"] == SRC]
            inn = [v for v in vs if v["kind"] == "loop" and v["source"] in ("Orders::orders(Iterator::next(%s).as:Some.0)" % SRC,
                                                                              "HashMap::values(Iterator::next(%s).as:Some.0.0)" % SRC)]
            inner = [(v["source"], [(render(p[0])[:40], p[1], p[2]) for p in v["pushes"]]) for v in vs]
            some = "Order::to_request_cancel($x)"
            ok = len(outer) == 1 and len(inn) == 1 and [(p[0], p[1], p[2]) for p in inn[0]["pushes"]] == [
                (arg, some + ".as:Some.0", "(" + " && ".join(sorted(["%s is Some" % some, "Iterator::next(%s) is Some" % SRC])) + ")")] and \
                len([p for v in vs for p in v["pushes"] if p[0] == arg]) == 2   # the same push seen from the outer and the inner loop
            # a non-cancellable order is skipped, it does not end the scan (`continue`, never `break`)
            if ok:
                lb = ctx.fibody(name="cancel_orders", self_adt=ENG, trait=CO)
                nexts = [tm for bi, t, tm in lb.real_calls() if tm[1].endswith("Iterator::next")]
                ok = len(nexts) == 2 and all(common.loop_body_always_continues(lb, nt) for nt in nexts)
        ctx.check("Engine::cancel_orders", ok,
                  "requests = to_request_cancel of every tracked order of every instrument matching the command's own filter",
                  sites=[sends[0][1]["sp"]], got=(render(arg)[:200], str(inner)[:300]), key="scope")
        ctx.check("Engine::cancel_orders", render(b.return_term()) == render(sends[0][2]) or b.return_term() == sends[0][2],
                  "reports the send's own output", got=render(b.return_term())[:120], key="output")
    ob = ctx.fibody(name="orders", self_adt=common.ORDERS, trait=common.OM)
    ctx.check("Orders::orders", render(ob.return_term()) == "HashMap::values(self.0)", "iterates every tracked order", got=render(ob.return_term()), key="all")
    common_send.r3_sent_only(ctx, 1, 1, only_fns={"Engine::cancel_orders"})


def r4(ctx):
    f = ctx.find(path="barter::strategy::close_positions::close_open_positions_with_market_orders")
    b = ctx.ibody(f)
    rt = b.return_term()
    ok = rt[0] == "agg" and rt[1] == "tuple" and rt[3][0][0] == "call" and rt[3][0][1].endswith("iter::empty")
    ctx.check("close_open_positions_with_market_orders", ok, "the default strategy issues no cancels", got=render(rt)[:200], key="no-cancels")
    opens = rt[3][1] if rt[0] == "agg" and len(rt[3]) == 2 else None
    ok = bool(opens) and opens[0] == "call" and opens[1].endswith("Iterator::filter_map") and \
        render(opens[2][0]) == "InstrumentStates::instruments(state.instruments, filter)"
    ctx.check("close_open_positions_with_market_orders", ok, "one candidate per instrument matching the given filter",
              got=render(opens)[:200] if opens else None, key="scope")
    if not ok:
        return
    cb, _ = mir.closure_body(ctx.facts, opens[2][1])
    somes = [(g, t, bi) for g, t, bi in cb.expanded_cases(0) if render(t).startswith("Option::Some")]
    ok = len(somes) == 1
    ctx.check("close_open_positions_with_market_orders", ok, "one producing path", got=[render(t)[:80] for g, t, bi in cb.expanded_cases(0)], key="one-some")
    if not ok:
        return
    g, t, bi = somes[0]
    call = t[3][0]
    pos = "Try::branch($1.position.current).as:Continue.0"
    price = "Try::branch(InstrumentDataState::price($1.data)).as:Continue.0"
    args = [render(a) for a in call[2][:4]] if call[0] == "call" else []
    ctx.check("close_open_positions_with_market_orders", call[0] == "call" and mir.short(call[1]) == "close_positions::build_ioc_market_order_to_close_position"
              and args[0] == "$1.instrument.exchange" and args[1] == pos and args[3] == price,
              "the order is built from this instrument's exchange, its own position and its own price", got=args, key="args")
    atoms_ = {mir.render_atom(a) for conj in g for a in conj}
    ctx.check("close_open_positions_with_market_orders",
              atoms_ == {"Try::branch($1.position.current) is Continue", "Try::branch(InstrumentDataState::price($1.data)) is Continue"},
              "an order is produced exactly when the instrument holds a position and has a price", got=sorted(atoms_), key="iff")
    bb = ctx.ibody(ctx.find(path="barter::strategy::close_positions::build_ioc_market_order_to_close_position"))
    cases = common.expand_phi_cases(bb, bb.expanded_cases(0))
    tab = {}
    for g2, t2, _ in cases:
        nm = common.variant_of(g2, "position.side")
        r = render(t2)
        for k in nm or ["?"]:
            tab[k] = r
    for side, flip in (("Buy", "Sell"), ("Sell", "Buy")):
        r = tab.get(side, "")
        # exact field values (`in` would also accept e.g. quantity_abs_max)
        import re as _re
        flds = dict(_re.findall(r"(\w+): ([^,{}]+(?:\{\})?)", r))
        ok = (flds.get("exchange") == "exchange" and flds.get("instrument") == "position.instrument" and flds.get("side") == "Side::%s{}" % flip
              and flds.get("quantity") == "position.quantity_abs" and flds.get("kind") == "OrderKind::Market{}"
              and flds.get("time_in_force") == "TimeInForce::ImmediateOrCancel{}" and flds.get("price") == "price" and flds.get("strategy") == "strategy_id")
        ctx.check("build_ioc_market_order_to_close_position:" + side, ok,
                  "opposite side, the position's full quantity and instrument, market / immediate-or-cancel", got=r[:400], key="fields")
    # the DefaultStrategy passes state and filter through
    ds = [d for d, bi, sp in common.lib_callers(ctx.facts, f)]
    ctx.check("DefaultStrategy::close_positions_requests", len(ds) >= 1, "default strategy uses the naive closer", got=ds, key="caller")
    for d in ds:
        cbody = ctx.ibody(d)
        for bi, t_, tm in cbody.real_calls():
            if tm[1] == f:
                ctx.check("DefaultStrategy::close_positions_requests", [render(a) for a in tm[2][1:3]] == ["state", "filter"],
                          "the strategy hands the engine state and the command's filter through unchanged", got=[render(a) for a in tm[2][:3]], key="passthrough")


def r5(ctx):
    b = ctx.fibody(name="action", self_adt=ENG, trait="")
    calls = b.real_calls()
    want = {"CancelOrders": ("Engine::cancel_orders", "command.as:CancelOrders.0", "ActionOutput::CancelOrders"),
            "ClosePositions": ("Engine::close_positions", "command.as:ClosePositions.0", "ActionOutput::ClosePositions"),
            "SendCancelRequests": ("Engine::send_requests", "command.as:SendCancelRequests.0", "ActionOutput::CancelOrders"),
            "SendOpenRequests": ("Engine::send_requests", "command.as:SendOpenRequests.0", "ActionOutput::OpenOrders")}
    n = 0
    for variant, (callee, arg, outv) in want.items():
        cs = [(bi, t, tm) for bi, t, tm in calls if mir.short(tm[1]) == callee and common.variant_of(b.guard(bi), "command") == {variant}]
        ok = len(cs) == 1 and render(cs[0][2][2][1]) == arg and render(cs[0][2][2][0]) == "self"
        n += 1
        ctx.check("Engine::action:" + variant, ok, "the command is dispatched to its action with its own payload",
                  sites=[c[1]["sp"] for c in cs], got=[render(c[2])[:160] for c in cs], key="dispatch")
        if ok:
            rets = [t for g, t, bi in b.expanded_cases(0) if common.variant_of(g, "command") == {variant}]
            okr = len(rets) == 1 and rets[0][0] == "agg" and mir.short(rets[0][1][4:]) == outv and rets[0][3][0] == cs[0][2]
            ctx.check("Engine::action:" + variant, okr, "and its output is reported under the matching variant",
                      got=[render(r)[:160] for r in rets], key="output")
    ctx.floor("command kinds", n, 4)


def r6(ctx):
    for name, tr in (("cancel_orders", "barter::engine::action::cancel_orders::CancelOrders"),
                     ("close_positions", "barter::engine::action::close_positions::ClosePositions")):
        b = ctx.fibody(name=name, self_adt=ENG, trait=tr)
        st = b.stores()
        mut = sorted(set(tm[1].rsplit("::", 1)[-1] for bi, t, tm in b.real_calls() if common.mutates_self(b, t, tm)))
        ctx.check("Engine::" + name, not st and set(mut) <= {"record_in_flight_cancels", "record_in_flight_opens"},
                  "the action changes engine state only by marking sent requests in flight",
                  got={"stores": [render(s[2]) for s in st], "mutating_calls": mut}, key="only-in-flight")
    CP = "barter::engine::action::close_positions::ClosePositions"
    b = ctx.fibody(name="close_positions", self_adt=ENG, trait=CP)
    gen = [tm for bi, t, tm in b.real_calls() if tm[1].endswith("ClosePositionsStrategy::close_positions_requests")]
    ok = len(gen) == 1 and [render(a) for a in gen[0][2]] == ["self.strategy", "self.state", "filter"]
    ctx.check("Engine::close_positions", ok, "requests come from the strategy applied to the engine state and the command's own filter",
              got=[render(x) for x in gen], key="scope")
    if ok:
        sends = {("cancels" if any("RequestCancel" in a for a in t["f"]["args"]) else "opens"): tm
                 for bi, t, tm in b.real_calls() if mir.short(tm[1]) == "Engine::send_requests"}
        ctx.check("Engine::close_positions", set(sends) == {"cancels", "opens"} and render(sends["cancels"][2][1]) == render(gen[0]) + ".0"
                  and render(sends["opens"][2][1]) == render(gen[0]) + ".1", "exactly the strategy's cancels and opens are sent",
                  got={k: render(v[2][1])[:160] for k, v in sends.items()}, key="sends")


def r7(ctx):
    """'repeating a cancel command while the first is still in flight requests nothing new' relies on the recorder marking
    EVERY tracked order of a sent cancel CancelInFlight (so to_request_cancel skips it next time) - shared with C01.R5 / C01.R6"""
    from rules import C01
    C01.r5(ctx)
    C01.r6(ctx)


def r8(ctx):
    """the filter VALUE: the constructors wrap every key they are given (a filter that lost a key makes the scope too small)"""
    import re
    IFL = "barter::engine::state::instrument::filter::InstrumentFilter"
    for nm, var in (("exchanges", "Exchanges"), ("instruments", "Instruments"), ("underlyings", "Underlyings")):
        b = ctx.fibody(name=nm, self_adt=IFL, trait="")
        tab = common.case_table(b)
        p = b.param_name(1)
        ctx.check("InstrumentFilter::" + nm, tab == {"true": ["InstrumentFilter::%s{0: OneOrMany::from_iter(%s)}" % (var, p)]},
                  "the %s filter holds the collection of ALL the keys given" % var, got=tab, key="wraps-all")
    OOM = "barter_integration::collection::one_or_many::OneOrMany"
    b = ctx.ibody(ctx.find(name="from_iter", self_adt=OOM, trait="std::iter::FromIterator"))

    def plain(x):
        prev = None
        while prev != x:
            prev = x
            x = re.sub(r"mut\[[a-z_,]*\]\(((?:[^()]|\([^()]*\))*)\)", r"\1", x)
        return x
    tab = {plain(k): [plain(v) for v in vs] for k, vs in common.case_table(b).items()}
    v = "Iterator::collect(iter)"
    ones = ["OneOrMany::One{0: Vec::swap_remove(%s, 0)}" % v, "OneOrMany::One{0: Vec::remove(%s, 0)}" % v]
    ok = set(tab) == {"(Vec::len(%s) in {1})" % v, "(Vec::len(%s) not in {1})" % v} and \
        tab["(Vec::len(%s) not in {1})" % v] == ["OneOrMany::Many{0: %s}" % v] and \
        len(tab["(Vec::len(%s) in {1})" % v]) == 1 and tab["(Vec::len(%s) in {1})" % v][0] in ones
    ctx.check("OneOrMany::from_iter", ok, "One(the element) exactly when the iterator yields one element, otherwise Many(all of them) - "
              "decided on the collected length, not on an iterator size hint", got=tab, key="keeps-all")


def r9(ctx):
    """a request of the scope is delivered on the link of ITS OWN exchange (= C03.R1, C03.R7): send_request looks the transmitter up
    by the request's exchange, and `find` answers with the transmitter stored at that very index"""
    from rules import C03
    C03.r1(ctx)
    C03.r7(ctx)


RULES = [
    ("R1", "filter table of InstrumentStates::filtered / filtered_mut, sibling agreement", r1),
    ("R2", "Order::to_request_cancel per tracked state", r2),
    ("R3", "cancel_orders: scope = orders(filter) o orders() o to_request_cancel; only `.sent` recorded", r3),
    ("R4", "default close strategy: one IOC market order per filtered instrument with position and price, side flipped", r4),
    ("R5", "Engine::action dispatch table", r5),
    ("R6", "the actions touch state only via record_in_flight_* and use the command's own filter", r6),
    ("R7", "in-flight recorders and open_meta / to_active helpers (repeat-cancel idempotence depends on them) = C01.R5, C01.R6", r7),
    ("R8", "filter construction: every key given is kept (InstrumentFilter constructors, OneOrMany::from_iter)", r8),
    ("R9", "requests of the scope are delivered on their own exchange's link (= C03.R1, C03.R7)", r9),
]
