"""C05 - the local L2 order book equals a price->amount map after any event sequence."""
import sympy

from sa import atoms, formula, mir, table, whomay
from sa.mir import render, render_guard
from rules import common

EXPLANATION = (
    "Sibling cross-check of comparators: for each book side the constructor's sort comparator and upsert's "
    "binary-search comparator must have the same normalised orientation (operand order xor parity of "
    "Ordering::reverse) - bids descending, asks ascending - and the search comparator must compare the existing "
    "level's price with the level being upserted; finite decision table of upsert_single over "
    "{found, not found} x {zero, non-zero amount} (remove / set amount / nothing / insert at the index the search "
    "returned); encapsulation of the level vector (visibility facts + who-may-write); OrderBook::update arms; "
    "top-of-book accessors and their leaf formulas; the manager applies each event to the book of the event's own "
    "instrument. Equality with a reference map over sequences follows by the sorted-vector invariant (App. D)."
)
NOT_DECIDED = ["equality with a reference map over arbitrary sequences (paper argument from R1-R3)",
               "a snapshot that itself contains a price twice", "slice::binary_search_by / Vec::insert / remove semantics"]
ASSUMPTIONS = ["std slice/Vec semantics", "rust_decimal Ord is the numeric order"]
TECHNIQUE = "comparator orientation agreement (sibling closures), decision table, visibility + who-may-write"

OBS = "barter_data::books::OrderBookSide"
OB = "barter_data::books::OrderBook"


def _orientation(term):
    """(parity of reverse, left operand, right operand) of a comparator closure's return term"""
    parity = 0
    t = term
    while t[0] == "call" and t[1].endswith("Ordering::reverse"):
        parity ^= 1
        t = t[2][0]
    if t[0] == "call" and (t[1].endswith("Ord::cmp") or t[1].endswith("PartialOrd::partial_cmp")) and len(t[2]) == 2:
        return parity, t[2][0], t[2][1]
    return None


WANT = {"Bids": 1, "Asks": 0}   # 1 = descending


def _pred_orientation(t):
    """1 / 0 if the `is_sorted_by`-style predicate `|a, b| ...` holds exactly for pairs in descending / ascending price order
    (equal prices allowed or not - both leave a sorted vector), else None"""
    rel = None
    if t[0] == "call" and len(t[2]) == 2:
        name = t[1].rsplit("::", 1)[-1]
        if t[1].startswith("std::cmp::PartialOrd::") and name in ("ge", "gt", "le", "lt"):
            rel, x, y = name, t[2][0], t[2][1]
    if t[0] == "call" and len(t[2]) == 1 and t[1].startswith("std::cmp::Ordering::is_") and t[1].rsplit("::is_", 1)[-1] in ("ge", "gt", "le", "lt"):
        o = _orientation(t[2][0])
        if o:
            rel, x, y = t[1].rsplit("::is_", 1)[-1], o[1], o[2]
            if o[0]:
                x, y = y, x
    if rel is None:
        return None
    desc = rel in ("ge", "gt")
    if render(x) == "$1.price" and render(y) == "$2.price":
        return 1 if desc else 0
    if render(x) == "$2.price" and render(y) == "$1.price":
        return 0 if desc else 1
    return None


def r1(ctx):
    n = 0
    for side in ("Bids", "Asks"):
        ctor = ctx.find(name=side.lower(), self_adt=OBS, self_ty_contains="books::" + side, trait="")
        ups = ctx.find(name="upsert", self_adt=OBS, self_ty_contains="books::" + side, trait="")
        cb = ctx.ibody(ctor)
        sorts = [(bi, t, tm) for bi, t, tm in cb.real_calls() if mir._strip_generics(tm[1]).rsplit("::", 1)[-1].startswith("sort")]
        ok = len(sorts) == 1 and sorts[0][2][2][-1][0] in ("agg", "fnitem")
        ctx.check("OrderBookSide<%s>::%s" % (side, side.lower()), ok, "the constructor sorts the levels once with a comparator",
                  got=[render(s[2])[:160] for s in sorts], key="sort")
        o_sort = None
        if ok:
            # the sort may be skipped only when the levels are ALREADY in this side's order (`is_sorted_by` with a predicate of the
            # same orientation); any other condition leaves an unsorted vector behind
            g = cb.guard(sorts[0][0])
            skip_ok = g == frozenset([frozenset()])
            if not skip_ok and len(g) == 1 and len(next(iter(g))) == 1:
                a = next(iter(next(iter(g))))
                if a[0] == "bool" and a[2] is False and a[1][0] == "call" and mir._strip_generics(a[1][1]).endswith("::is_sorted_by") and \
                        render(a[1][2][0]) == render(sorts[0][2][2][0]) and a[1][2][-1][0] == "agg":
                    pb_, _ = mir.closure_body(ctx.facts, a[1][2][-1])
                    skip_ok = _pred_orientation(pb_.return_term()) == WANT[side]
            ctx.check("OrderBookSide<%s>::%s" % (side, side.lower()), skip_ok,
                      "the levels are sorted on every path (the sort is skipped at most when they are already in %s order)" %
                      ("descending" if WANT[side] else "ascending"), sites=[sorts[0][1]["sp"]], got=render_guard(g)[:300], key="sort-always")
            # (a closure literal or a named comparator function: read through the same view)
            cmp_rt = common.callable_return(ctx, sorts[0][2][2][-1]) or ("const", "?", "")
            o = _orientation(cmp_rt)
            if o and render(o[1]) == "$1.price" and render(o[2]) == "$2.price":
                o_sort = o[0]
            elif o and render(o[1]) == "$2.price" and render(o[2]) == "$1.price":
                o_sort = o[0] ^ 1
            n += 1
            ctx.check("OrderBookSide<%s>::%s" % (side, side.lower()), o_sort == WANT[side],
                      "%s are kept %s by price" % (side, "descending" if WANT[side] else "ascending"),
                      sites=[sorts[0][1]["sp"]], got=render(cmp_rt), key="sort-order")
            # the sorted vector is what is stored
            rt = cb.return_term()
            ctx.check("OrderBookSide<%s>::%s" % (side, side.lower()), rt[0] == "agg" and render(dict(zip(rt[2], rt[3])).get("levels")) ==
                      render(sorts[0][2][2][0]), "the stored levels are the sorted vector", got=render(rt)[:200], key="stores-sorted")
        ub = ctx.ibody(ups)
        # idiom-independent (inlined view): one loop over the argument; in its body exactly one upsert_single, for every element
        us = [(bi, t, tm) for bi, t, tm in ub.real_calls() if mir.short(tm[1]) == "OrderBookSide::upsert_single"]
        nx = "Iterator::next(levels)"
        ok = len(us) == 1 and common.canon_guard(ub.guard(us[0][0])) == "(%s is Some)" % nx
        ctx.check("OrderBookSide<%s>::upsert" % side, ok, "every level of the update is visited and upserted exactly once (loop over the "
                  "argument, no condition other than the iteration itself)", got=[(render(x[2])[:120], common.canon_guard(ub.guard(x[0]))[:120]) for x in us],
                  key="visits-all")
        if not ok:
            continue
        call = us[0][2]
        lvl = call[2][1]
        ctx.check("OrderBookSide<%s>::upsert" % side, render(call[2][0]) == "self" and render(lvl) == "Into::into(%s.as:Some.0)" % nx,
                  "into this side's own levels, with the visited level", got=render(call)[:200], key="receiver")
        crt = common.callable_return(ctx, call[2][2]) or ("const", "?", "")
        o = _orientation(crt)
        o_search = None
        target = render(mir.mk_proj(lvl, ("price",)))
        if o and render(o[1]) == "$1.price" and render(o[2]) == target:
            o_search = o[0]
        elif o and render(o[2]) == "$1.price" and render(o[1]) == target:
            o_search = o[0] ^ 1
        n += 1
        ctx.check("OrderBookSide<%s>::upsert" % side, o is not None and o_search is not None,
                  "the search comparator compares the existing level's price with the price of the level being upserted",
                  sites=[us[0][1]["sp"]], got=render(crt), key="search-operands")
        ctx.check("OrderBookSide<%s>" % side, o_search is not None and o_search == o_sort,
                  "binary search uses the same ordering the levels are sorted in (otherwise lookups miss and duplicates/"
                  "disorder appear)", got={"sort_descending": o_sort, "search_descending": o_search}, key="agree")
    ctx.floor("comparator closures", n, 4)


def r2(ctx):
    b = ctx.fibody(name="upsert_single", self_adt=OBS, trait="")
    bs = [(bi, t, tm) for bi, t, tm in b.real_calls() if tm[1].endswith("binary_search_by")]
    ok = len(bs) == 1 and [render(a) for a in bs[0][2][2]] == ["self.levels", "fn_ord"]
    ctx.check("OrderBookSide::upsert_single", ok, "one binary search of self.levels with the given comparator", got=[render(x[2]) for x in bs], key="search")
    if not ok:
        return
    S = bs[0][2]
    eff = []
    for bi, t, tm in b.real_calls():
        n = mir._strip_generics(tm[1])
        if n.endswith(("Vec::remove", "Vec::swap_remove")) and render(tm[2][0]) == "self.levels":
            eff.append(("remove@" + render(tm[2][1]).replace(render(S), "search"), b.guard(bi), t["sp"]))
        elif n.endswith("Vec::insert") and render(tm[2][0]) == "self.levels":
            eff.append(("insert@%s:%s" % (render(tm[2][1]).replace(render(S), "search"), render(tm[2][2])), b.guard(bi), t["sp"]))
        elif common.mutates_self(b, t, tm) and not n.endswith(("IndexMut::index_mut",)):
            eff.append(("call:" + mir.short(tm[1]), b.guard(bi), t["sp"]))
    for bi, si, path, value, s in b.stores():
        eff.append(("store:%s:=%s" % (render(path).replace(render(S), "search"), render(value)), b.guard(bi), s["sp"]))
    ctx.floor("effect sites in upsert_single", len(eff), 3)

    def val(cell):
        def v(a):
            if a[0] == "is" and a[1] == S:
                return cell["search"] in a[2]
            if a[0] == "bool" and a[1][0] == "call" and a[1][1].endswith("Decimal::is_zero") and render(a[1][2][0]) == "new_level.amount":
                return (cell["amount"] == "zero") == a[2]
            return None
        return v
    oracle = {("Ok", "zero"): ["remove@search.as:Ok.0"],
              ("Ok", "nonzero"): ["store:IndexMut::index_mut(self.levels, search.as:Ok.0).amount:=new_level.amount"],
              ("Err", "zero"): [],
              ("Err", "nonzero"): ["insert@search.as:Err.0:new_level"]}
    for cell in table.cells({"search": ["Ok", "Err"], "amount": ["zero", "nonzero"]}):
        try:
            got = sorted(k for k, g, sp in eff if table.eval_guard(g, val(cell)))
        except table.UnknownAtom as ex:
            ctx.check("OrderBookSide::upsert_single:%s/%s" % (cell["search"], cell["amount"]), False,
                      "an effect depends on a condition outside {found?, amount zero?} (fail closed)", got=str(ex), key="unknown-atom")
            continue
        want = oracle[(cell["search"], cell["amount"])]
        ctx.check("OrderBookSide::upsert_single:%s/%s" % (cell["search"], cell["amount"]), got == want,
                  "map semantics: found&zero -> delete, found&non-zero -> set amount, absent&zero -> nothing, absent&non-zero -> insert at "
                  "the position the search returned", got=got, want=want, key="cell")


def r3(ctx):
    adt = ctx.facts.adts.get(OBS)
    vis = {f["name"]: f["vis"] for f in adt["variants"][0]["fields"]}
    ctx.check("OrderBookSide.levels", vis.get("levels") not in (None, "pub"), "the level vector is not public", got=vis, key="private")
    adt = ctx.facts.adts.get(OB)
    vis = {f["name"]: f["vis"] for f in adt["variants"][0]["fields"]}
    ctx.check("OrderBook.{bids,asks}", vis.get("bids") != "pub" and vis.get("asks") != "pub", "the sides are not public", got=vis, key="private")
    allowed = {"OrderBookSide::bids", "OrderBookSide::asks", "OrderBookSide::upsert_single", "OrderBookSide::default"}
    bad = []
    n = 0
    for d, bi, kind, sp in whomay.writers_of(ctx.facts, OBS, "levels"):
        o = whomay.owner_fn(d)
        if common.is_test(ctx.facts, d) or common.is_derived(ctx.facts, o):
            continue
        n += 1
        if mir.short(o) not in allowed:
            bad.append((mir.short(o), kind, sp))
    ctx.check("OrderBookSide.levels", not bad, "only the sorted constructors, Default and upsert_single write the level vector",
              got=bad, sites=[x[2] for x in bad], key="writers")
    ctx.floor("writers of OrderBookSide.levels", n, 3)
    # levels() hands out a shared slice
    lv = ctx.fibody(name="levels", self_adt=OBS, trait="")
    ctx.check("OrderBookSide::levels", lv.locals[0]["ty"].startswith("&") and not lv.locals[0]["ty"].startswith("&mut"),
              "read access only", got=lv.locals[0]["ty"], key="shared")
    bad = []
    for fld in ("bids", "asks"):
        for d, bi, kind, sp in whomay.writers_of(ctx.facts, OB, fld):
            o = whomay.owner_fn(d)
            if common.is_test(ctx.facts, d) or common.is_derived(ctx.facts, o):
                continue
            # (`OrderBook::update` itself may touch the sides: what it does with them is pinned call by call in R4)
            if mir.short(o) not in ("OrderBook::new", "OrderBook::snapshot", "OrderBook::upsert_bids", "OrderBook::upsert_asks", "OrderBook::default",
                                    "OrderBook::update"):
                bad.append((mir.short(o), fld, kind, sp))
    ctx.check("OrderBook.{bids,asks}", not bad, "sides are written only by the constructors and the upsert entry points", got=bad, key="writers")


def r4(ctx):
    b = ctx.fibody(name="update", self_adt=OB, trait="")
    st = {(render(s[2]), render(s[3]), render_guard(b.guard(s[0]))) for s in b.stores()}
    want = {("self", "event.as:Snapshot.0", "(event is Snapshot)"),
            ("self.sequence", "event.as:Update.0.sequence", "(event is Update)"),
            ("self.time_engine", "event.as:Update.0.time_engine", "(event is Update)")}
    ctx.check("OrderBook::update", st == want, "snapshot replaces the whole book; an update takes the update's sequence and time",
              got=sorted(st), want=sorted(want), key="stores")
    # read at the call site: `self.upsert_bids(update.bids)` IS `self.bids.upsert(update.bids.levels)` (the entry points' own bodies,
    # checked below, with the actual arguments put in), so the helper call and its inlined body are the same statement
    cs = set()
    for bi, t, tm in b.real_calls():
        if mir.short(tm[1]) in ("OrderBook::upsert_bids", "OrderBook::upsert_asks") and tm[1] in ctx.facts.bodies:
            for bj, t2, tm2 in ctx.ibody(tm[1]).real_calls():
                tm2 = mir.subst_params(tm2, tm[2])
                cs.add((mir.short(tm2[1]), "Bids" if "books::Bids>" in tm2[1] else ("Asks" if "books::Asks>" in tm2[1] else "?"),
                        tuple(render(a) for a in tm2[2]), render_guard(b.guard(bi))))
        else:
            cs.add((mir.short(tm[1]), "Bids" if "books::Bids>" in tm[1] else ("Asks" if "books::Asks>" in tm[1] else "?"),
                    tuple(render(a) for a in tm[2]), render_guard(b.guard(bi))))
    wantc = {("OrderBookSide::upsert", "Bids", ("self.bids", "event.as:Update.0.bids.levels"), "(event is Update)"),
             ("OrderBookSide::upsert", "Asks", ("self.asks", "event.as:Update.0.asks.levels"), "(event is Update)")}
    ctx.check("OrderBook::update", cs == wantc, "bids go to the bid side and asks to the ask side", got=sorted(cs), want=sorted(wantc), key="upserts")
    for fn, fld, side in (("upsert_bids", "bids", "Bids"), ("upsert_asks", "asks", "Asks")):
        ub = ctx.fibody(name=fn, self_adt=OB, trait="")
        c = ub.real_calls()
        ok = len(c) == 1 and c[0][2][1].endswith("::upsert") and ("books::%s>" % side) in c[0][2][1] and \
            [render(a) for a in c[0][2][2]] == ["self." + fld, "update.levels"]
        ctx.check("OrderBook::" + fn, ok, "upserts the update's levels into the %s side with the %s ordering" % (fld, side),
                  got=[(x[2][1], render(x[2])) for x in c], key="side")


def r5(ctx):
    for fn, leaf, leaf_args in (("mid_price", "books::mid_price", ("price", "price")),
                                ("volume_weighed_mid_price", "books::volume_weighted_mid_price", ("", ""))):
        b = ctx.fibody(name=fn, self_adt=OB, trait="")
        tab = {}
        for g, term, bi in b.expanded_cases(0):
            if len(g) != 1:
                tab["?"] = render_guard(g)
                continue
            key = []
            for a in sorted(next(iter(g)), key=repr):
                if a[0] == "is" and a[1][0] == "call" and a[1][1].endswith("::first"):
                    key.append("%s=%s" % (render(a[1][2][0]).split(".")[1], "|".join(sorted(a[2]))))
                else:
                    key.append("?" + mir.render_atom(a))
            tab[",".join(sorted(key))] = render(term)
        bid = "slice::first(self.bids.levels).as:Some.0"
        ask = "slice::first(self.asks.levels).as:Some.0"
        sfx = ".price" if leaf_args[0] else ""
        want = {"asks=None,bids=None": "Option::None{}",
                "asks=Some,bids=None": "Option::Some{0: %s.price}" % ask,
                "asks=None,bids=Some": "Option::Some{0: %s.price}" % bid,
                "asks=Some,bids=Some": "Option::Some{0: %s(%s%s, %s%s)}" % (leaf, bid, sfx, ask, sfx)}
        ctx.check("OrderBook::" + fn, tab == want, "uses the first (best) level of each side; one-sided books report that side's price",
                  got=tab, want=want, key="table")
    m = ctx.ibody(ctx.find(path="barter_data::books::mid_price"))
    b_, a_ = sympy.Symbol("best_bid_price"), sympy.Symbol("best_ask_price")
    try:
        ok = formula.equal(formula.to_sympy(ctx.facts, m.return_term()), (b_ + a_) / 2)
    except formula.NotAFormula:
        ok = False
    ctx.check("books::mid_price", ok, "(bid + ask) / 2", got=render(m.return_term()), key="formula")
    v = ctx.ibody(ctx.find(path="barter_data::books::volume_weighted_mid_price"))
    bp, ba, ap, aa = sympy.symbols("best_bid.price best_bid.amount best_ask.price best_ask.amount")
    try:
        ok = formula.equal(formula.to_sympy(ctx.facts, v.return_term()), (bp * aa + ap * ba) / (ba + aa))
    except formula.NotAFormula:
        ok = False
    ctx.check("books::volume_weighted_mid_price", ok, "(bid.price*ask.amount + ask.price*bid.amount) / (bid.amount + ask.amount)",
              got=render(v.return_term()), key="formula")
    s = ctx.fibody(name="snapshot", self_adt=OB, trait="")
    rt = s.return_term()
    if rt[0] == "call" and mir.short(rt[1]) == "OrderBook::new":
        # built through the book's own constructor instead of a struct literal: read the constructor at this call site
        cs = common.at_call(ctx, rt) or []
        if len(cs) == 1:
            rt = cs[0][1]
    f = {k: render(x) for k, x in zip(rt[2], rt[3])} if rt[0] == "agg" else {}
    want = {"sequence": "self.sequence", "time_engine": "self.time_engine",
            "bids": "OrderBookSide::bids(Iterator::copied(Iterator::take(self.bids.levels, depth)))",
            "asks": "OrderBookSide::asks(Iterator::copied(Iterator::take(self.asks.levels, depth)))"}
    ctx.check("OrderBook::snapshot", f == want, "depth-limited snapshot = the first `depth` levels of each side with the book's sequence",
              got=f, want=want, key="fields")


def r6(ctx):
    ds = [d for d in ctx.facts.bodies if d.startswith("barter_data::books::manager::OrderBookL2Manager::") and d.endswith("::run::{closure#0}")]
    if len(ds) != 1:
        raise Exception("OrderBookL2Manager::run coroutine not found")
    b = ctx.ibody(ds[0])
    calls = b.real_calls()
    find = [(bi, t, tm) for bi, t, tm in calls if tm[1].endswith("OrderBookMap::find")]
    upd = [(bi, t, tm) for bi, t, tm in calls if mir.short(tm[1]) == "OrderBook::update"]
    wr = [(bi, t, tm) for bi, t, tm in calls if tm[1].endswith("::write")]
    ok = len(find) == 1 and len(upd) == 1 and len(wr) == 1
    ctx.check("OrderBookL2Manager::run", ok, "one lookup, one write lock, one update per event", got=(len(find), len(wr), len(upd)), key="shape")
    if not ok:
        return
    ev = find[0][2][2][1]
    ctx.check("OrderBookL2Manager::run", render(ev).endswith(".instrument") and "as:Item.0" in render(ev),
              "the book is looked up under the event's own instrument", got=render(find[0][2])[:200], key="lookup")
    u = upd[0][2]
    ctx.check("OrderBookL2Manager::run", render(u[2][1]) == render(ev)[:-len(".instrument")] + ".kind" and "write" in render(u[2][0])
              and render(find[0][2]) in render(u[2][0]),
              "the event's own payload is applied to that book under its write lock", got=render(u)[:300], key="apply")
    ctx.check("OrderBookL2Manager::run", b.dominates(find[0][0], wr[0][0]) and b.dominates(wr[0][0], upd[0][0]), "lookup, lock, then update", key="order")
    extra = []
    for conj in b.guard(upd[0][0]):
        for a in conj:
            r = mir.render_atom(a)
            if a[0] == "is" and (a[1] == find[0][2] and a[2] == frozenset(["Some"])):
                continue
            if a[0] == "is" and a[2] <= {"Item", "Some", "Ready"} and ("StreamExt::next" in r or "Future::poll" in r):
                continue
            extra.append(r[:120])
    ctx.check("OrderBookL2Manager::run", not extra,
              "every book event of a configured instrument is applied (no further condition can skip an update)", got=sorted(set(extra)), key="every-event")


RULES = [
    ("R1", "comparator agreement per side: sort order == binary-search order; bids descending, asks ascending", r1),
    ("R2", "upsert_single decision table over {found, absent} x {zero, non-zero}", r2),
    ("R3", "encapsulation of the level vector: visibility and who-may-write", r3),
    ("R4", "OrderBook::update arms: snapshot replaces, update sets sequence/time and upserts both sides", r4),
    ("R5", "top of book: first level of each side; mid / volume-weighted mid formulas; depth snapshot", r5),
    ("R6", "manager applies the event to the book of the event's own instrument under the write lock", r6),
]
