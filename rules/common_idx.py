"""Shared pack for C04 / C11: index-space discipline.

An InstrumentIndex / AssetIndex / ExchangeIndex is a position in IndexedInstruments.{instruments,assets,
exchanges}; it may be used POSITIONALLY only on tables that are aligned with that vector."""
import re

from sa import atoms, mir, whomay
from sa.mir import render
from rules import common

KINDS = {
    "barter_instrument::instrument::InstrumentIndex": "Instrument",
    "barter_instrument::asset::AssetIndex": "Asset",
    "barter_instrument::exchange::ExchangeIndex": "Exchange",
}
II = "barter_instrument::index::IndexedInstruments"
II_FIELDS = {"instruments": "Instrument", "assets": "Asset", "exchanges": "Exchange"}

# frozen table: fields that are meant to be aligned, with their reviewed constructors (one reason each)
ALIGNED = {
    ("barter::engine::state::instrument::InstrumentStates", "0"):
        ("Instrument", {"barter::engine::state::instrument::generate_indexed_instrument_states"},
         "one state per IndexedInstruments.instruments() entry, in order"),
    ("barter::engine::state::asset::AssetStates", "0"):
        ("Asset", {"barter::engine::state::asset::generate_empty_indexed_asset_states"},
         "one state per IndexedInstruments.assets() entry, in order"),
    ("barter::engine::state::connectivity::ConnectivityStates", "exchanges"):
        ("Exchange", {"barter::engine::state::connectivity::generate_empty_indexed_connectivity_states"},
         "one state per IndexedInstruments.exchanges() entry, in order"),
    ("barter::engine::execution_tx::MultiExchangeTxMap", "0"):
        ("Exchange", {"<barter::engine::execution_tx::MultiExchangeTxMap<Tx> as std::iter::FromIterator<(barter_instrument::exchange::ExchangeId, std::option::Option<Tx>)>>::from_iter"},
         "built by collect() in ExecutionBuilder::build over ALL exchanges (None for unused ones)"),
    ("barter::statistic::summary::TradingSummaryGenerator", "instruments"):
        ("Instrument", {"barter::statistic::summary::TradingSummaryGenerator::init"}, "copied from InstrumentStates.0 in order"),
    ("barter::statistic::summary::TradingSummaryGenerator", "assets"):
        ("Asset", {"barter::statistic::summary::TradingSummaryGenerator::init"}, "copied from AssetStates.0 in order"),
}

POSITIONAL = ("::get_index", "::get_index_mut", "::get_index_of", "::get_index_entry", "::swap_remove_index",
              "::shift_remove_index")
SLICE_POS = ("core::slice::<impl [T]>::get", "std::vec::Vec::<T, A>::get", "core::slice::<impl [T]>::get_mut")
ORDER_PRESERVING = (
    "Iterator::map", "Iterator::collect", "Iterator::enumerate", "Iterator::cloned", "Iterator::copied",
    "::iter", "::iter_mut", "::values", "::values_mut", "::keys", "::into_values", "::into_keys", "::into_iter",
    "FromIterator::from_iter",
)
SHIFTING = ("::insert", "::insert_full", "::shift_insert", "::swap_remove", "::shift_remove", "::sort", "::sort_by",
            "::sort_keys", "::sort_unstable_keys", "::sort_unstable_by", "::sorted_by", "::retain", "::pop", "::drain",
            "::truncate", "::reverse", "::swap_indices", "::move_index", "::clear", "::extend", "::split_off",
            "::swap_remove_index", "::shift_remove_index", "::swap_remove_entry", "::shift_remove_entry", "::append")


def adt_of_type(ty):
    """path of the ADT named by a type string like `&mut a::b::C<X>`"""
    t = ty.strip()
    while t.startswith("&"):
        t = t[1:].strip()
        if t.startswith("'"):
            t = t.split(" ", 1)[1] if " " in t else t
        if t.startswith("mut "):
            t = t[4:]
    return mir._strip_generics(t).strip()


def type_of_term(ctx, body, term):
    """best-effort static type (ADT path / type string) of an access path rooted at a param"""
    if term[0] == "param":
        return body.locals[term[1]]["ty"]
    if term[0] == "cparam":
        i = term[1] + 1
        return body.locals[i]["ty"] if i < len(body.locals) else None
    if term[0] == "upvar" and "::{closure#" in body.defn:
        # a variable captured by a closure: its type is the type of the captured place in the enclosing function
        parent = body.defn.rsplit("::{closure#", 1)[0]
        if parent in ctx.facts.bodies:
            pb = mir.get_body(ctx.facts, parent)
            agg = _closure_agg(pb, body.defn)
            if agg is not None:
                cb, m = mir.closure_body(ctx.facts, agg)
                op = (m or {}).get(term[1])
                if op is not None:
                    ty = type_of_term(ctx, pb, op)
                    return ty
    if term[0] == "proj":
        ty = type_of_term(ctx, body, term[1])
        variant = None
        for e in term[2]:
            if ty is None:
                return None
            if e.startswith("as:"):
                variant = e[3:]
                continue
            if e.startswith("["):
                return None
            adt = ctx.facts.adts.get(adt_of_type(ty))
            if adt is None:
                # tuples: `(A, B)`
                return None
            vs = adt["variants"]
            v = vs[0]
            if variant:
                v = next((x for x in vs if x["name"] == variant), v)
                variant = None
            f = next((x for x in v["fields"] if x["name"] == e), None)
            if f is None:
                return None
            ty = f["ty"]
        return ty
    return None


def index_kind(ctx, body, term):
    """'Instrument'|'Asset'|'Exchange' if `term` is the usize inside one of the three index newtypes"""
    for t in mir.subterms(term):
        if t[0] == "proj" and t[2][-1] == "0":
            base = mir.mk_proj(t[1], t[2][:-1]) if len(t[2]) > 1 else t[1]
            ty = type_of_term(ctx, body, base)
            if ty:
                k = KINDS.get(adt_of_type(ty))
                if k:
                    return k
        if t[0] == "call" and mir._strip_generics(t[1]) in tuple(k + "::index" for k in KINDS):
            return KINDS[mir._strip_generics(t[1])[:-len("::index")]]
    return None


def arg_field(body, operand, depth=0):
    """(adt, field) of the place an operand refers to (following `&place` temporaries)"""
    p = operand.get("m") or operand.get("c")
    if p is None or depth > 8:
        return None
    fl = [e for e in p["p"] if "f" in e and e["a"] not in ("(tuple)", "(upvars)", "(?)")]
    if fl:
        return (fl[-1]["a"], fl[-1]["n"])
    ds = body.defs.get(p["l"], [])
    if len(ds) == 1 and ds[0][2] == "stmt":
        rv = ds[0][3]["rv"]
        if rv["r"] == "ref":
            return arg_field(body, {"c": rv["p"]}, depth + 1)
        if rv["r"] == "use":
            return arg_field(body, rv["o"], depth + 1)
    return None


def lib_bodies(ctx):
    for d, rec in ctx.facts.bodies.items():
        if rec.get("test"):
            continue
        if rec["kind"] not in ("fn", "assoc_fn", "closure", "coroutine"):
            continue
        yield d


def positional_uses(ctx):
    """all positional accesses in library code whose index derives from one of the three index types"""
    out = []
    for d in lib_bodies(ctx):
        rec = ctx.facts.bodies[d]
        # cheap pre-filter on raw records
        hit = False
        for blk in rec["blocks"]:
            t = blk["term"]
            if t and t["t"] == "call" and "def" in t["f"]:
                n = mir._strip_generics(t["f"]["def"])
                if n.endswith(POSITIONAL) or n in tuple(mir._strip_generics(x) for x in SLICE_POS):
                    hit = True
                    break
            for s in blk["stmts"]:
                if "lhs" in s and (any("ix" in e for e in s["lhs"]["p"]) or _rv_has_index(s["rv"])):
                    hit = True
                    break
            if hit:
                break
        if not hit:
            continue
        b = ctx.ibody(d)
        for bi, t in b.iter_calls():
            f = t["f"]
            if "def" not in f:
                continue
            n = mir._strip_generics(f["def"])
            if not (n.endswith(POSITIONAL) or n in tuple(mir._strip_generics(x) for x in SLICE_POS)):
                continue
            if len(t["args"]) < 2:
                continue
            idx = b.operand_term(t["args"][1])
            k = index_kind(ctx, b, idx)
            if k is None:
                continue
            out.append({"def": d, "bi": bi, "sp": t["sp"], "kind": k, "field": arg_field(b, t["args"][0]),
                        "recv": render(b.operand_term(t["args"][0])), "idx": render(idx), "callee": n})
        # `table[i]` projections
        for blk in b.blocks:
            if blk["cleanup"] or blk["i"] not in b.reachable:
                continue
            for s in blk["stmts"]:
                if "lhs" not in s:
                    continue
                for pl in [s["lhs"]] + _rv_places(s["rv"]):
                    for j, e in enumerate(pl["p"]):
                        if "ix" in e:
                            idx = b.local_term(e["ix"])
                            k = index_kind(ctx, b, idx)
                            if k is None:
                                continue
                            fl = [x for x in pl["p"][:j] if "f" in x]
                            fld = (fl[-1]["a"], fl[-1]["n"]) if fl else None
                            out.append({"def": d, "bi": blk["i"], "sp": s["sp"], "kind": k, "field": fld,
                                        "recv": "place", "idx": render(idx), "callee": "[index]"})
    return out


def _rv_places(rv):
    r = rv["r"]
    out = []
    if r in ("ref", "rawptr", "discr"):
        out.append(rv["p"])
    for o in whomay._operands(rv):
        p = o.get("c") or o.get("m")
        if p:
            out.append(p)
    return out


def _rv_has_index(rv):
    return any(any("ix" in e for e in p["p"]) for p in _rv_places(rv))


def idx_r1(ctx, exclude_adts=(), floor=11):
    uses = positional_uses(ctx)
    n = 0
    for u in uses:
        if u["field"] and u["field"][0] in exclude_adts:
            continue
        n += 1
        fld = u["field"]
        al = ALIGNED.get(fld) if fld else None
        owner = mir.short(whomay.owner_fn(u["def"]))
        if fld and fld[0] == II and II_FIELDS.get(fld[1]) == u["kind"]:
            ok, why = True, "IndexedInstruments itself"
        elif al is None:
            ok, why = False, "receiver %s is not a table aligned with the %s index space" % (fld, u["kind"])
        elif al[0] != u["kind"]:
            ok, why = False, "receiver %s is aligned for %s indices, but is indexed with an %sIndex" % (fld, al[0], u["kind"])
        else:
            ok, why = True, al[2]
        ctx.check("%s:%s[%s]" % (owner, "%s.%s" % (mir.short(fld[0]).split("::")[-1], fld[1]) if fld else u["recv"], u["kind"]), ok,
                  "a global %sIndex may be used positionally only on a table aligned with IndexedInstruments" % u["kind"],
                  sites=[u["sp"]], got=why, key="positional")
    ctx.floor("positional uses of Instrument/Asset/Exchange indices", n, floor)
    return uses


def _chain(term):
    names = []
    while term[0] == "call" and term[2]:
        names.append(term[1])
        term = term[2][0]
    return names, term


def _root_kind(ctx, body, root):
    """kind of an aligned root: IndexedInstruments.{..} or an aligned field"""
    if root[0] != "proj":
        return None
    base_ty = type_of_term(ctx, body, mir.mk_proj(root[1], root[2][:-1]) if len(root[2]) > 1 else root[1])
    if base_ty is None:
        return None
    adt = adt_of_type(base_ty)
    fld = root[2][-1]
    if adt == II:
        return II_FIELDS.get(fld)
    al = ALIGNED.get((adt, fld))
    return al[0] if al else None


def _local_mutators(body, operand):
    """calls that receive `&mut <local>` of a local in the move-chain feeding `operand` (e.g. `map.sort_keys()` between
    `collect()` and the struct literal) - invisible to provenance, so looked up on the raw MIR"""
    chain = set()
    p = operand.get("m") or operand.get("c")
    seen = 0
    while p is not None and not p["p"] and seen < 10:
        chain.add(p["l"])
        ds = body.defs.get(p["l"], [])
        nxt = None
        if len(ds) == 1 and ds[0][2] == "stmt" and ds[0][3]["rv"]["r"] == "use":
            o = ds[0][3]["rv"]["o"]
            nxt = o.get("m") or o.get("c")
        p = nxt
        seen += 1
    out = []
    for bi, t in body.iter_calls():
        for a in t["args"]:
            q = a.get("m") or a.get("c")
            if q is None or q["p"]:
                continue
            ds = body.defs.get(q["l"], [])
            if len(ds) == 1 and ds[0][2] == "stmt":
                rv = ds[0][3]["rv"]
                if rv["r"] == "ref" and rv["mut"] and not rv["p"]["p"] and rv["p"]["l"] in chain:
                    out.append((mir.short(mir.callee_path(t["f"]) or "?"), t["sp"]))
    return out


def _loop_fill(ctx, b, d, term, kind):
    """the table is an empty collection filled by ONE loop over an aligned source with exactly one unconditional
    insert / push per element (the explicit form of `source.iter().map(..).collect()`): True / False / None (= not this form)"""
    if term[0] != "mutated":
        return None
    base, callees = term[1], term[2]
    bn = mir._strip_generics(base[1]).rsplit("::", 1)[-1] if base[0] == "call" else None
    if bn not in ("default", "new", "with_capacity", "with_capacity_and_hasher", "with_hasher"):
        return None
    if not all(c.rsplit("::", 1)[-1] in ("insert", "push") for c in callees):
        return False
    fills = []
    for v in common.elementwise_views(ctx, d):
        if v["kind"] != "loop":
            continue
        mine = [c for c in v["calls"] if c[0].split("(", 1)[0].rsplit("::", 1)[-1] == "insert" and c[0].split("(", 1)[1].startswith(render(term))]
        mine += [("push", p[2]) for p in v["pushes"] if p[0] == term]
        if mine:
            fills.append((v, mine))
    if len(fills) != 1:
        return False
    v, mine = fills[0]
    src = v["source_term"]
    # `instruments.exchanges()` style accessor of IndexedInstruments or a direct field
    names, root = _chain(src)
    rk = _root_kind(ctx, b, root)
    if rk is None and src[0] == "call" and src[1].startswith(II + "::") and len(src[2]) == 1:
        rk = II_FIELDS.get(src[1].rsplit("::", 1)[-1])
    return v["complete"] and len(mine) == 1 and mine[0][1] == "true" and rk == kind


def _check_chain(ctx, body, term, kind, anchor, site):
    names, root = _chain(term)
    bad = [n for n in names if not mir._strip_generics(n).endswith(ORDER_PRESERVING)]
    rk = _root_kind(ctx, body, root)
    ctx.check(anchor, not bad and rk == kind,
              "an aligned table must be filled from the %s index space through order- and length-preserving adapters only"
              % kind, sites=[site], got={"adapters": [mir.short(n) for n in names], "root": render(root), "root_kind": rk},
              want="root aligned for %s; adapters within %s" % (kind, list(ORDER_PRESERVING)), key="chain")
    return not bad and rk == kind


def idx_r2(ctx, only=None, floor=6):
    n = 0
    for (adt, fld), (kind, ctors, why) in sorted(ALIGNED.items()):
        if only is not None and (adt, fld) not in only:
            continue
        anchor = "%s.%s" % (mir.short(adt).split("::")[-1], fld)
        # (a) constructors are the reviewed ones
        cs = []
        for d, bi, sp in whomay.constructors_of(ctx.facts, adt):
            o = whomay.owner_fn(d)
            if common.is_test(ctx.facts, d) or common.is_derived(ctx.facts, o):
                continue
            cs.append((o, d, bi, sp))
        unknown = sorted(set(o for o, _, _, _ in cs if o not in ctors))
        ctx.check(anchor, not unknown, "constructed only by its reviewed constructor(s)", got=unknown,
                  want=sorted(ctors), sites=[sp for o, _, _, sp in cs if o not in ctors], key="constructors")
        ctx.check(anchor, any(o in ctors for o, _, _, _ in cs), "reviewed constructor present", got=[o for o, _, _, _ in cs],
                  key="constructor-present")
        # (b) fill chain
        for o, d, bi, sp in cs:
            if o not in ctors:
                continue
            b = ctx.ibody(d)
            for blk in b.blocks:
                if blk["i"] != bi:
                    continue
                for s in blk["stmts"]:
                    rv = s.get("rv")
                    if rv and rv["r"] == "agg" and rv["kind"].get("adt") == adt:
                        i = rv["kind"]["fields"].index(fld)
                        term = b.operand_term(rv["ops"][i])
                        if adt.endswith("MultiExchangeTxMap"):
                            # from_iter(param): the chain is checked at the collect() sites below
                            ok = render(term) in ("FromIterator::from_iter(iter)", "IndexMap::from_iter(iter)") or \
                                (term[0] == "call" and term[1].endswith("FromIterator::from_iter") and render(term[2][0]) == "iter")
                            ctx.check(anchor, ok, "MultiExchangeTxMap wraps exactly the iterator it is collected from",
                                      sites=[s["sp"]], got=render(term), key="from_iter")
                            n += 1
                        else:
                            lf = _loop_fill(ctx, b, d, term, kind)
                            if lf is not None:
                                ctx.check(anchor, lf, "the table is filled by one loop over the %s index space with exactly one unconditional "
                                          "insert per element (order and length preserved)" % kind, sites=[s["sp"]], got=render(term)[:160], key="loop-fill")
                                if lf:
                                    n += 1
                                continue
                            muts = _local_mutators(b, rv["ops"][i])
                            ctx.check(anchor, not muts, "the table is not reordered / filtered between being filled and being stored",
                                      sites=[x[1] for x in muts], got=[x[0] for x in muts], key="mutated-before-store")
                            if _check_chain(ctx, b, term, kind, anchor, s["sp"]):
                                n += 1
        # (c) no position-shifting mutation of the field anywhere in library code
        bad = []
        for d in lib_bodies(ctx):
            rec = ctx.facts.bodies[d]
            for blk in rec["blocks"]:
                t = blk["term"]
                if not (t and t["t"] == "call" and "def" in t["f"] and t["args"]):
                    continue
                nme = mir._strip_generics(t["f"]["def"])
                if not nme.endswith(SHIFTING):
                    continue
                b = ctx.ibody(d)
                if arg_field(b, t["args"][0]) == (adt, fld):
                    bad.append((mir.short(d), mir.short(nme), t["sp"]))
        ctx.check(anchor, not bad, "no library code inserts into / removes from / reorders an aligned table",
                  sites=[x[2] for x in bad], got=bad, key="frozen")
    if only is not None and not any(a.endswith("MultiExchangeTxMap") for a, _ in only):
        ctx.floor("aligned tables with a verified fill chain", n, floor)
        return
    # MultiExchangeTxMap collect sites
    m = 0
    for d in lib_bodies(ctx):
        rec = ctx.facts.bodies[d]
        for blk in rec["blocks"]:
            t = blk["term"]
            if t and t["t"] == "call" and "def" in t["f"] and t["f"]["def"] in ("std::iter::Iterator::collect", "std::iter::FromIterator::from_iter"):
                if any("MultiExchangeTxMap" in a for a in t["f"]["args"][1:] if t["f"]["def"].endswith("collect")) or \
                        (t["f"]["def"].endswith("from_iter") and "MultiExchangeTxMap" in t["f"]["args"][0]):
                    b = ctx.ibody(d)
                    term = b.call_term(t, blk["i"])
                    m += 1
                    if _check_chain(ctx, b, term, "Exchange", "MultiExchangeTxMap.0@%s" % mir.short(d), t["sp"]):
                        n += 1
    ctx.floor("collect() sites producing a MultiExchangeTxMap", m, 1)
    ctx.floor("aligned tables with a verified fill chain", n, floor)


def idx_r3(ctx):
    """builder: sort+dedup precede enumerate; key = position"""
    B = "barter_instrument::index::builder::IndexedInstrumentsBuilder"
    d = ctx.find(name="build", self_adt=B, trait="")
    b = ctx.ibody(d)
    calls = b.real_calls()
    rt = b.return_term()
    ok = rt[0] == "agg" and rt[1].endswith("IndexedInstruments::IndexedInstruments")
    ctx.check("IndexedInstrumentsBuilder::build", ok, "returns an IndexedInstruments literal", got=render(rt)[:120], key="shape")
    if not ok:
        return
    fields = dict(zip(rt[2], rt[3]))
    n = 0
    want_key = {"exchanges": "ExchangeIndex::new", "assets": "AssetIndex::new", "instruments": "InstrumentIndex::new"}
    for fld in ("exchanges", "assets", "instruments"):
        term = fields.get(fld)
        names, root = _chain(term)
        sn = [mir.short(x) for x in names]
        okc = sn[:3] == ["Iterator::collect", "Iterator::map", "Iterator::enumerate"] and render(root) == "self." + fld \
            and all(mir._strip_generics(x).endswith(ORDER_PRESERVING) for x in names)
        ctx.check("IndexedInstrumentsBuilder::build:" + fld, okc,
                  "the vector is collect(map(enumerate(self.%s.into_iter()))) - nothing filtered or reordered after numbering" % fld,
                  got={"adapters": sn, "root": render(root)}, key="enumerate-chain")
        # sort and dedup of self.<fld> dominate the enumerate
        en = [(bi, t, tm) for bi, t, tm in calls if tm[1].endswith("Iterator::enumerate") and render(tm[2][0]) == "self." + fld]
        so = [(bi, t, tm) for bi, t, tm in calls if mir._strip_generics(tm[1]).endswith("::sort") and render(tm[2][0]) == "self." + fld]
        de = [(bi, t, tm) for bi, t, tm in calls if mir._strip_generics(tm[1]).endswith("::dedup") and render(tm[2][0]) == "self." + fld]
        oko = len(en) == 1 and len(so) == 1 and len(de) == 1 and b.dominates(so[0][0], de[0][0]) and so[0][0] != de[0][0] \
            and b.dominates(de[0][0], en[0][0]) and de[0][0] != en[0][0]
        ctx.check("IndexedInstrumentsBuilder::build:" + fld, oko, "sort, then dedup, then enumerate (indices are assigned to the "
                  "sorted, duplicate-free sequence)", sites=[x[1]["sp"] for x in so + de + en],
                  got=(len(so), len(de), len(en)), key="sort-dedup-enumerate")
        # the mapping closure: Keyed::new(K::new(index), element)
        if okc:
            m = term[2][0]
            cb, caps = mir.closure_body(ctx.facts, m[2][1])
            crt = cb.return_term()
            r = render(crt)
            okk = crt[0] == "agg" and crt[1].endswith("Keyed::Keyed") and render(crt[3][0]).startswith(mir.short(want_key[fld]).split("::")[0]) \
                and "$1.0" in render(crt[3][0])
            ctx.check("IndexedInstrumentsBuilder::build:" + fld, okk,
                      "each element is keyed by its own enumerate position", got=r[:200], key="key-is-position")
            if fld != "instruments":
                ctx.check("IndexedInstrumentsBuilder::build:" + fld, render(crt[3][1]) == "$1.1",
                          "the keyed value is the enumerated element itself", got=render(crt[3][1])[:100], key="value")
            else:
                cbcalls = [mir.short(tm[1]) for _, _, tm in cb.real_calls()]
                ctx.check("IndexedInstrumentsBuilder::build:instruments",
                          "index::find_exchange_by_exchange_id" in cbcalls and "Instrument::map_asset_key_with_lookup" in cbcalls,
                          "instrument exchange / asset keys are resolved against the already indexed vectors", got=cbcalls, key="resolve")
                # the lookups use the instrument's own exchange
                for bi, t, tm in cb.real_calls():
                    if mir.short(tm[1]) == "index::find_exchange_by_exchange_id":
                        ctx.check("IndexedInstrumentsBuilder::build:instruments", render(tm[2][1]) == "$1.1.exchange" and
                                  "exchanges" in render(tm[2][0]),
                                  "exchange key is looked up by the instrument's own exchange in the indexed exchanges",
                                  sites=[t["sp"]], got=render(tm), key="exchange-lookup")
                # nested asset lookup closure
                # (the closures the mapping closure itself builds - found through the closure aggregates in its calls, so that
                #  it does not matter whether the body sits in the closure or in a private helper the closure calls)
                nested = sorted(set(x[1][len("closure:"):] for _, _, tm_ in cb.real_calls() for x in mir.subterms(tm_)
                                    if x[0] == "agg" and x[1].startswith("closure:")))
                for cd in nested:
                    if cd not in ctx.facts.bodies:
                        continue
                    ccb = ctx.ibody(cd)
                    for bi, t, tm in ccb.real_calls():
                        if mir.short(tm[1]) == "index::find_asset_by_exchange_and_name_internal":
                            args = [render(mir.in_closure(ctx.facts, _closure_agg(cb, cd), a)) if _closure_agg(cb, cd) else render(a) for a in tm[2]]
                            ctx.check("IndexedInstrumentsBuilder::build:instruments",
                                      "assets" in args[0] and args[1].endswith(".exchange") and args[2] == "$1.name_internal",
                                      "asset keys are looked up by (the instrument's own exchange, the asset's internal name)",
                                      sites=[t["sp"]], got=args, key="asset-lookup")
                            n += 1
            n += 1
    ctx.floor("builder vectors + lookups", n, 4)
    # lookups find by the right predicates
    for fn, want in (("find_exchange_by_exchange_id", ["eq($1.value, needle)"]),
                     ("find_asset_by_exchange_and_name_internal", ["eq($1.value.exchange, needle_exchange)", "eq($1.value.asset.name_internal, needle_name)"])):
        d = ctx.find(path="barter_instrument::index::" + fn)
        fb = ctx.ibody(d)
        got = []
        key_ok = False
        oks = [t for g, t, bi in fb.expanded_cases(0) if t[0] == "agg" and t[1].endswith("Result::Ok")]
        errs_ok = all(t[0] == "agg" and t[1].endswith(("Result::Ok", "Result::Err")) for g, t, bi in fb.expanded_cases(0))
        if len(oks) == 1 and errs_ok:
            fm = common.first_match(ctx, oks[0][3][0])
            if fm:
                got = fm[1]
                key_ok = fm[0] == "haystack" and fm[2] == "$x.key"
        want = [w.replace("$1", "$x") for w in want]
        ctx.check("index::" + fn, sorted(got) == sorted(want) and key_ok,
                  "returns the key of the element whose own fields equal the needle(s)", got=got, want=want, key="predicate")


def _closure_agg(parent_body, closure_def):
    """the closure aggregate term built in parent_body for closure_def"""
    for blk in parent_body.blocks:
        for s in blk["stmts"]:
            rv = s.get("rv")
            if rv and rv["r"] == "agg" and rv["kind"].get("def") == closure_def:
                return parent_body.rvalue_term(rv)
    return None


def idx_r7(ctx):
    adt = ctx.facts.adts.get(II)
    vis = {f["name"]: f["vis"] for f in adt["variants"][0]["fields"]}
    ctx.check("IndexedInstruments", all(v != "pub" for v in vis.values()), "fields are private", got=vis, key="private")
    bad = []
    n = 0
    for fld in II_FIELDS:
        for d, bi, kind, sp in whomay.writers_of(ctx.facts, II, fld):
            o = whomay.owner_fn(d)
            if common.is_test(ctx.facts, d) or common.is_derived(ctx.facts, o):
                continue
            n += 1
            if mir.short(o) not in ("IndexedInstrumentsBuilder::build",):
                bad.append((mir.short(o), fld, kind, sp))
    ctx.check("IndexedInstruments", not bad, "only the builder writes the indexed vectors (frozen after construction)",
              got=bad, sites=[x[3] for x in bad], key="writers")
    ctx.floor("writers of IndexedInstruments fields", n, 3)
    # accessors hand out shared slices
    for fld in II_FIELDS:
        d = ctx.find(name=fld, self_adt=II, trait="")
        b = ctx.ibody(d)
        ctx.check("IndexedInstruments::" + fld, b.locals[0]["ty"].startswith("&") and not b.locals[0]["ty"].startswith("&mut"),
                  "accessor returns a shared slice", got=b.locals[0]["ty"], key="shared")


def idx_r8(ctx):
    """order independence: the sorts use derived (structural) Ord on the whole element"""
    n = 0
    for adt in ("barter_instrument::exchange::ExchangeId", "barter_instrument::asset::ExchangeAsset",
                "barter_instrument::instrument::Instrument"):
        imps = [i for i in ctx.facts.impls if i.get("self_adt") == adt and i.get("trait") in ("std::cmp::Ord", "std::cmp::PartialEq")]
        tr = {i["trait"]: i["derived"] for i in imps}
        n += 1
        ctx.check(mir.short(adt), tr.get("std::cmp::Ord") is True and tr.get("std::cmp::PartialEq") is True,
                  "Ord and PartialEq are derived (lexicographic on all fields), so sort+dedup is a function of the multiset",
                  got=tr, key="derived-ord")
    ctx.floor("element types", n, 3)


def idx_r9(ctx):
    """the six lookups of IndexedInstruments are mutual inverses by construction: name -> index returns the KEY of the
    element whose own fields equal the needles, index -> name returns the VALUE of the element whose own key equals the
    index - both as 'first match' over the full vector (never a position inside a filtered view)"""
    want = {
        "find_exchange_index": ("delegate", "index::find_exchange_by_exchange_id(self.exchanges, exchange)"),
        "find_asset_index": ("delegate", "index::find_asset_by_exchange_and_name_internal(self.assets, exchange, name)"),
        "find_instrument_index": ("first", ("self.instruments", ["eq($x.value.exchange.value, exchange)", "eq($x.value.name_internal, name)"], "$x.key")),
        "find_exchange": ("first", ("self.exchanges", ["eq($x.key.0, index.0)"], "$x.value")),
        "find_asset": ("first", ("self.assets", ["eq($x.key.0, index.0)"], "$x.value")),
        "find_instrument": ("first", ("self.instruments", ["eq($x.key.0, index.0)"], "$x.value")),
    }
    n = 0
    for fn, (kind, w) in sorted(want.items()):
        b = ctx.fibody(name=fn, self_adt=II, trait="")
        cases = b.expanded_cases(0)
        if kind == "delegate":
            got = [render(t) for g, t, bi in cases]
            ok = got == [w]
        else:
            oks = [(g, t) for g, t, bi in cases if t[0] == "agg" and t[1].endswith("Result::Ok")]
            rest = [t for g, t, bi in cases if not (t[0] == "agg" and t[1].endswith(("Result::Ok", "Result::Err")))]
            fm = common.first_match(ctx, oks[0][1][3][0], guard=oks[0][0]) if len(oks) == 1 and not rest else None
            got = fm
            ok = fm is not None and (fm[0], sorted(fm[1]), fm[2]) == (w[0], sorted(w[1]), w[2])
        n += 1
        ctx.check("IndexedInstruments::" + fn, ok, "lookup = first element of the FULL vector whose own fields equal the needle(s); "
                  "returns that element's own key (name -> index) / value (index -> name)", got=got, want=w, key="lookup")
    ctx.floor("IndexedInstruments lookups", n, 6)


def idx_r10(ctx):
    """registration completeness: add_instrument hands the builder the instrument, its exchange and EVERY asset it refers to
    (base, quote, settlement asset if any, order-quantity unit asset if any) - an asset that is not registered gets no index
    and cannot be resolved by build()"""
    B = "barter_instrument::index::builder::IndexedInstrumentsBuilder"
    b = ctx.fibody(name="add_instrument", self_adt=B, trait="")
    got = sorted((render(tm), common.canon_guard(b.guard(bi))) for bi, t, tm in b.real_calls() if b.mut_args(t))
    ex = "instrument.exchange"
    st = "InstrumentKind::settlement_asset(instrument.kind)"
    want = sorted([
        ("Vec::push(self.exchanges, %s)" % ex, "true"),
        ("Vec::push(self.assets, ExchangeAsset::new(%s, instrument.underlying.base))" % ex, "true"),
        ("Vec::push(self.assets, ExchangeAsset::new(%s, instrument.underlying.quote))" % ex, "true"),
        ("Vec::push(self.assets, ExchangeAsset::new(%s, %s.as:Some.0))" % (ex, st), "(%s is Some)" % st),
        ("Vec::push(self.assets, ExchangeAsset::new(%s, instrument.spec.as:Some.0.quantity.unit.as:Asset.0))" % ex,
         "(instrument.spec is Some && instrument.spec.as:Some.0.quantity.unit is Asset)"),
        ("Vec::push(self.instruments, instrument)", "true"),
    ])
    ctx.check("IndexedInstrumentsBuilder::add_instrument", got == want,
              "registers the exchange, the instrument and each of: base, quote, settlement asset (when the kind has one), "
              "quantity-unit asset (when the spec names one) - each under the instrument's own exchange, independently of the others",
              got=got, want=want, key="registers-all")


def _leaves(ctx, term, path=()):
    """(destination path, leaf term) pairs of a (nested) record term: aggregate fields and enum payloads are descended,
    constructor calls (`Underlying::new(base, quote)`) are resolved to the record they build"""
    if term[0] == "call" and term[1] in ctx.facts.bodies and mir._strip_generics(term[1]).rsplit("::", 1)[-1] in ("new", "from"):
        r = common.resolve_calls(ctx, term, lambda c: c == term[1], depth=1)
        if r != term and r[0] == "agg":
            term = r
    if term[0] == "agg" and not term[1].startswith(("closure:", "tuple", "array", "vec")):
        names, vals = term[2], term[3]
        variant = term[1].rsplit("::", 1)[-1]
        adt = term[1].rsplit("::", 2)[-2] if term[1].count("::") >= 1 else ""
        is_enum_variant = variant != adt
        out = []
        if is_enum_variant and not vals:
            return [(path, ("variant", variant))]
        for n_, v in zip(names, vals):
            sub = path + (("as:" + variant,) if is_enum_variant else ()) + (str(n_),)
            out.extend(_leaves(ctx, v, sub))
        return out
    return [(path, term)]


def idx_r11(ctx):
    """role-preserving key translation: Instrument::map_asset_key_with_lookup rebuilds the instrument field by field; the asset
    key stored at a place is the lookup of the key found at THAT SAME place of the source (base <- base, quote <- quote,
    settlement asset <- settlement asset, unit asset <- unit asset); everything else is copied from its own place"""
    I = "barter_instrument::instrument::Instrument"
    b = ctx.fibody(name="map_asset_key_with_lookup", self_adt=I, trait="")
    lk = b.param_name(2)
    n = 0
    bad = []
    for g, t, bi in b.expanded_cases(0):
        if not (t[0] == "agg" and t[1].endswith("Result::Ok")):
            continue
        atoms_ = set()
        for conj in g:
            for a in conj:
                if a[0] == "is":
                    atoms_.add((render(a[1]), tuple(sorted(a[2]))))
        for path, leaf in _leaves(ctx, t[3][0]):
            src = "self" + "".join("." + p for p in path)
            n += 1
            if leaf[0] == "variant":
                # a payload-free variant written as a literal: the case must be the one where the source holds that variant
                if (src, (leaf[1],)) not in atoms_:
                    bad.append((src, "literal %s not under `%s is %s`" % (leaf[1], src, leaf[1])))
                continue
            while leaf[0] == "call" and leaf[1] in ("std::convert::Into::into", "std::convert::From::from") and len(leaf[2]) == 1:
                leaf = leaf[2][0]       # (conversion of a key into its own type: `Underlying::new(base: impl Into<AssetKey>, ..)`)
            r = render(leaf)
            lookup = "Try::branch(Fn::call(%s, tuple{0: %s})).as:Continue.0" % (lk, src)
            alt = "Try::branch(FnMut::call_mut(%s, tuple{0: %s})).as:Continue.0" % (lk, src)
            if r not in (src, lookup, alt):
                bad.append((src, r[:160]))
    ctx.check("Instrument::map_asset_key_with_lookup", not bad and n > 0,
              "every field of the rebuilt instrument is its own source field, or the lookup of the asset key found at that same place",
              got=sorted(set(bad))[:6], key="role-preserving")
    ctx.floor("destination fields of the rebuilt instrument", n, 100)


def idx_r12(ctx):
    """by-name access agrees with by-index access: the state tables are keyed by the indexed entity's OWN name (instrument:
    name_internal; asset: (exchange, internal asset name); exchange: its id), and each state is built for that same entity"""
    want = {
        "barter::engine::state::instrument::generate_indexed_instrument_states":
            ("instruments.instruments", ["$1.value.name_internal"], "InstrumentState::new($1.key, "),
        "barter::engine::state::asset::generate_empty_indexed_asset_states":
            ("instruments.assets", ["ExchangeAsset::ExchangeAsset{exchange: $1.value.exchange, asset: $1.value.asset.name_internal}"],
             "AssetState::AssetState{asset: $1.value.asset, "),
        "barter::engine::state::connectivity::generate_empty_indexed_connectivity_states":
            ("instruments.exchanges", ["$1.value"], "ConnectivityState::"),
    }
    n = 0
    for p, (src, keys, state_prefix) in want.items():
        ds = [d for d in ctx.facts.bodies if mir._strip_generics(d) == p]
        if len(ds) != 1:
            raise Exception("anchor not found: " + p)
        b = ctx.ibody(ds[0])
        got = None
        ok = False
        maps = [s_ for s_ in mir.subterms(b.return_term()) if s_[0] == "call" and s_[1].endswith("Iterator::map") and s_[2][1][0] in ("agg", "fnitem")]
        if len(maps) == 1 and render(common.strip_iter(maps[0][2][0])) == src:
            rt = common.callable_return(ctx, maps[0][2][1]) or ("const", "?", "")
            if rt[0] == "agg" and len(rt[3]) == 2:
                key = common.resolve_calls(ctx, rt[3][0], lambda c: mir._strip_generics(c).rsplit("::", 1)[-1] in ("new", "from"))
                # (`Into::into` of a value that already has the key's type is the identity conversion)
                got = (re.sub(r"Into::into\(([^()]*)\)", r"\1", render(key)), render(rt[3][1])[:80])
                # (a derived constructor reads as the struct literal it builds)
                alt = state_prefix.replace("InstrumentState::new($1.key, ", "InstrumentState::InstrumentState{key: $1.key, ")
                ok = got[0] in keys and got[1].startswith((state_prefix, alt))
        else:
            # loop form: one complete loop over the same source with one unconditional insert(table, key, state)
            vs = [v for v in common.elementwise_views(ctx, ds[0]) if v["kind"] == "loop" and v["complete"] and v["source"] == src]
            if len(vs) == 1:
                ins = [c for c in vs[0]["calls"] if c[0].startswith("IndexMap::insert(") and c[1] == "true"]
                got = [c[0][:200] for c in ins]
                keys_x = [k.replace("$1", "$x") for k in keys] + ["ExchangeAsset::new($x.value.exchange, $x.value.asset.name_internal)"]
                sp_x = state_prefix.replace("$1", "$x")
                ok = len(ins) == 1 and any((", %s, %s" % (k, p_)) in ins[0][0] for k in keys_x
                                           for p_ in (sp_x, sp_x.replace("InstrumentState::new($x.key, ", "InstrumentState::InstrumentState{key: $x.key, ")))
        n += 1 if ok else 0
        ctx.check(mir.short(p), ok, "each entry is keyed by the indexed entity's own name and holds the state built for that same entity",
                  got=got, want=(keys[0], state_prefix + ".."), key="own-key")
    ctx.floor("by-name tables keyed by own name", n, 3)


def idx_r13(ctx):
    """the execution-link table: `ExecutionBuilder::build` walks ALL indexed exchanges in index order and gives each one the
    transmitter that was registered UNDER THAT EXCHANGE'S OWN ID (a keyed lookup), or None - independent of the order in which the
    executions were added; `add_execution` registers the transmitter under the exchange it was built for"""
    EB = "barter::execution::builder::ExecutionBuilder"
    bd = ctx.find(name="build", self_adt=EB, trait="")
    b = ctx.ibody(bd)
    rt = b.return_term()
    fl = dict(zip(rt[2], rt[3])) if rt[0] == "agg" else {}
    t = fl.get("execution_tx_map", ("const", "?", ""))
    ok = False
    got = render(t)[:200]
    if t[0] == "call" and t[1].endswith("Iterator::collect") and t[2][0][0] == "call" and t[2][0][1].endswith("Iterator::map") and \
            render(common.strip_iter(t[2][0][2][0])) == "self.instruments.exchanges":
        crt = common.callable_return(ctx, t[2][0][2][1])
        look = None
        if crt is not None:
            for s_ in mir.subterms(crt):
                if s_[0] == "call" and mir._strip_generics(s_[1]).endswith(("HashMap::remove", "HashMap::get", "IndexMap::get", "IndexMap::swap_remove", "IndexMap::shift_remove")):
                    look = s_
        if crt is not None and look is not None:
            lk = render(look)
            alts = sorted(render(a) for a in (crt[1] if crt[0] == "phi" else [crt]))
            got = {"lookup": lk, "entry": alts}
            ok = render(look[2][0]) == "self.execution_txs" and render(look[2][1]) == "$1.value" and \
                alts == sorted(["tuple{0: $1.value, 1: Option::None{}}", "tuple{0: $1.value, 1: Option::Some{0: %s.as:Some.0.1}}" % lk])
    ctx.check("ExecutionBuilder::build", ok, "every indexed exchange, in index order, is paired with the transmitter registered under its own "
              "ExchangeId (keyed lookup) or None - whatever the order in which executions were added", got=got, key="keyed-link")
    ab = ctx.fibody(name="add_execution", self_adt=EB, trait="")
    ins = [tm for bi, t_, tm in ab.real_calls() if mir._strip_generics(tm[1]).endswith(("HashMap::insert", "IndexMap::insert")) and render(tm[2][0]) == "self.execution_txs"]
    ok = len(ins) == 1 and render(ins[0][2][1]) == "exchange" and render(mir.mk_proj(ins[0][2][2], ("1",))) == "channel::mpsc_unbounded().0"
    ctx.check("ExecutionBuilder::add_execution", ok, "the transmitter is registered under the exchange the execution was built for",
              got=[render(x)[:200] for x in ins], key="registered-by-id")
