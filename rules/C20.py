"""C20 - backtests consume their whole dataset in order and do not affect one another."""
from sa import atoms, mir, whomay
from sa.mir import render, render_guard
from rules import common

EXPLANATION = (
    "Dominance rules on pre-transform coroutine MIR: in System::shutdown_after_backtest the Shutdown is put on the feed "
    "only after the market forwarder's JoinHandle has completed (the send is control-dependent on the Ready/Continue "
    "outcome of polling market_to_engine) and the engine is awaited only after that send; backtest() uses that "
    "shutdown path, builds clock / execution / engine inside the call from the shared constants (engine state by clone "
    "out of the Arc) with the per-backtest strategy and risk manager, and generates its summary from the engine that "
    "very call returned; MarketDataInMemory::stream yields events[i].clone() for i in 0..len in order; the market "
    "stream is forwarded into the same feed channel the engine runner consumes; run_backtests hands every backtest "
    "Arc::clone of the constants and nothing takes &mut of them."
)
NOT_DECIDED = ["equality of results across schedules", "FIFO delivery of the feed channel", "interior mutability inside user-supplied data types"]
ASSUMPTIONS = ["tokio JoinHandle completes when the forwarder task has forwarded its whole stream", "tokio mpsc FIFO"]
TECHNIQUE = "await-ordering as dominance on pre-transform coroutine MIR; provenance of constructor arguments"

SYS = "barter::system::System"


def _coroutine(ctx, suffix, prefix=""):
    ds = [d for d in ctx.facts.bodies if d.endswith(suffix) and d.startswith(prefix)]
    if len(ds) != 1:
        raise Exception("coroutine %s not found uniquely: %r" % (suffix, ds[:4]))
    return ctx.ibody(ds[0])


def r1(ctx):
    b = _coroutine(ctx, "::shutdown_after_backtest::{closure#0}", SYS)
    calls = b.real_calls()
    sends = [(bi, t, tm) for bi, t, tm in calls if tm[1].rsplit("::", 1)[-1] == "send" and render(tm[2][0]) == "^self.feed_tx"]
    ok = len(sends) == 1 and render(sends[0][2][2][1]) == "Shutdown::Shutdown{}"
    ctx.check("System::shutdown_after_backtest", ok, "exactly one Shutdown is put on the engine feed", got=[render(x[2]) for x in sends], key="one-shutdown")
    if not ok:
        return
    sb = sends[0][0]
    g = b.guard(sb)

    def after_market(conj):
        for a in conj:
            if a[0] == "is":
                r = render(a[1])
                if "Future::poll(^self.handles.market_to_engine" in r and (a[2] == frozenset(["Continue"]) or a[2] == frozenset(["Ready"])):
                    return True
        return False
    ctx.check("System::shutdown_after_backtest", all(after_market(c) for c in g),
              "Shutdown is sent only after the market-data forwarder has finished (dominated by the completion of market_to_engine.await)",
              sites=[sends[0][1]["sp"]], got=render_guard(g)[:300], key="drain-first")
    polls_m = [bi for bi, t, tm in calls if tm[1].endswith("Future::poll") and render(tm[2][0]) == "^self.handles.market_to_engine"]
    polls_e = [bi for bi, t, tm in calls if tm[1].endswith("Future::poll") and render(tm[2][0]) == "^self.engine"]
    ctx.check("System::shutdown_after_backtest", len(polls_m) == 1 and b.dominates(polls_m[0], sb) and polls_m[0] != sb,
              "the forwarder is awaited before the send", key="await-order")
    ctx.check("System::shutdown_after_backtest", len(polls_e) == 1 and b.dominates(sb, polls_e[0]) and sb != polls_e[0],
              "the engine is awaited after the Shutdown was sent", key="engine-after")
    # the function returns the engine obtained from that await
    oks = [render(t) for gg, t, bi in b.expanded_cases(0) if render(t).startswith("Result::Ok")]
    ctx.check("System::shutdown_after_backtest", len(oks) == 1 and "Future::poll(^self.engine" in oks[0],
              "returns the engine (and its final audit) handed back by the engine task", got=[x[:200] for x in oks], key="returns-engine")


def r2(ctx):
    b = _coroutine(ctx, "barter::backtest::backtest::{closure#0}")
    calls = b.real_calls()
    names = [mir.short(tm[1]) for bi, t, tm in calls]
    sd = [x for x in names if "shutdown" in x.lower() or x.endswith("::abort")]
    uses = [tm for bi, t, tm in calls if "shutdown_after_backtest" in tm[1] or any(s[0] == "agg" and "shutdown_after_backtest" in s[1] for s in mir.subterms(tm))]
    ctx.check("backtest", bool(uses) and all("shutdown_after_backtest" in x for x in sd),
              "a backtest ends through shutdown_after_backtest (never the immediate shutdown / abort)", got=sd, key="drain-shutdown")
    en = [tm for bi, t, tm in calls if mir.short(tm[1]) == "Engine::new"]
    ok = len(en) == 1
    ctx.check("backtest", ok, "one engine per backtest call", got=len(en), key="one-engine")
    if ok:
        a = en[0][2]
        ctx.check("backtest", render(common.untry(b, a[0])) == "HistoricalClock::new(Future::poll(BacktestMarketData::time_first_event(^args_constant.market_data), "
                  "future::get_context(resume)).as:Ready.0.as:Ok.0)",
                  "a fresh historical clock starting at the dataset's first event", got=render(a[0])[:160], key="clock")
        ctx.check("backtest", render(a[1]) == "^args_constant.engine_state",
                  "the engine state is the shared initial state (cloned out of the Arc - it cannot be moved)", got=render(a[1]), key="state")
        ctx.check("backtest", render(a[2]).startswith("ExecutionBuilder::build(") and "ExecutionBuilder::new(^args_constant.instruments)" in render(a[2]),
                  "execution infrastructure is built inside the call", got=render(a[2])[:120], key="execution")
        ctx.check("backtest", render(a[3]) == "^args_dynamic.strategy" and render(a[4]) == "^args_dynamic.risk",
                  "with this backtest's own strategy and risk manager", got=(render(a[3]), render(a[4])), key="dynamic")
        # Engine::new argument 1 must be an owned EngineState (type-level evidence that a clone happened)
        eb = ctx.ibody(en[0][1])
        ctx.check("backtest", not eb.locals[2]["ty"].startswith("&"), "Engine::new takes the state by value", got=eb.locals[2]["ty"][:80], key="by-value")
    ms = [tm for bi, t, tm in calls if tm[1].endswith("BacktestMarketData::stream")]
    sbd = [tm for bi, t, tm in calls if mir.short(tm[1]) == "SystemBuild::new"]
    ok = len(ms) == 1 and len(sbd) == 1 and render(ms[0][2][0]) == "^args_constant.market_data" and \
        render(sbd[0][2][3]) == "Try::branch(Future::poll(%s, future::get_context(resume)).as:Ready.0).as:Continue.0" % render(ms[0]) \
        and len(en) == 1 and sbd[0][2][0] == en[0]
    ctx.check("backtest", ok, "the system is built from that engine and exactly the dataset's own stream (not filtered / re-ordered / truncated)", got=[render(x[2][3])[:200] for x in sbd], key="system")
    ts = [tm for bi, t, tm in calls if mir.short(tm[1]) == "Engine::trading_summary_generator"]
    ok = len(ts) == 1 and "shutdown_after_backtest" in render(ts[0][2][0]) and render(ts[0][2][0]).endswith(".as:Continue.0.0")
    ctx.check("backtest", ok, "the summary is generated from the engine returned by this call's own shutdown", got=[render(x[2][0])[-80:] for x in ts], key="own-summary")
    gen = [tm for bi, t, tm in calls if mir.short(tm[1]) == "TradingSummaryGenerator::generate"]
    oks = [t for g, t, bi in b.expanded_cases(0) if render(t).startswith("Result::Ok")]
    ctx.check("backtest", len(gen) == 1 and len(oks) >= 1 and all((lambda f: f.get("id") == "^args_dynamic.id" and f.get("trading_summary", "").startswith("TradingSummaryGenerator::generate(mut[generate](Engine::trading_summary_generator(")
                   and f.get("trading_summary", "").endswith(", ^args_constant.summary_interval)"))(common.agg_fields(x, "BacktestSummary::BacktestSummary")) for x in oks),
              "and returned under this backtest's own id", key="returns")
    ctx.floor("backtest wiring checks", 8, 8)


def r3(ctx):
    b = _coroutine(ctx, "as barter::backtest::market_data::BacktestMarketData>::stream::{closure#0}", "<barter::backtest::market_data::MarketDataInMemory")
    oks = [t for g, t, bi in b.expanded_cases(0) if render(t).startswith("Result::Ok")]
    ok = len(oks) == 1
    inner = oks[0][3][0] if ok else None
    ok = ok and inner[0] == "call" and inner[1].endswith("stream::iter") and inner[2][0][0] == "call" and inner[2][0][1].endswith("Iterator::map")
    ctx.check("MarketDataInMemory::stream", bool(ok), "the stream is stream::iter over a mapped index range", got=[render(x)[:200] for x in oks], key="shape")
    if not ok:
        return
    rng, cl = inner[2][0][2]
    ctx.check("MarketDataInMemory::stream", render(rng) == "Range::Range{start: 0, end: Vec::len(^self.events)}",
              "indices run from 0 to the number of events, ascending", got=render(rng), key="range")
    cb, _ = mir.closure_body(ctx.facts, cl)
    rt = mir.in_closure(ctx.facts, cl, cb.return_term())
    ctx.check("MarketDataInMemory::stream", render(rt) == "Index::index(^self.events, $1)",
              "item i is (a clone of) events[i]", got=render(rt), key="item")
    _r3_dataset(ctx)


def _r3_dataset(ctx):
    """... and `events` IS the dataset the user handed over: the constructor stores the given vector itself - not a sorted,
    filtered or otherwise rearranged copy ("in dataset order" is the order of the user's dataset)"""
    MD = "barter::backtest::market_data::MarketDataInMemory"
    nb = ctx.fibody(name="new", self_adt=MD, trait="")
    p = nb.param_name(1)
    rt = nb.return_term()
    f = {k: render(v) for k, v in zip(rt[2], rt[3])} if rt[0] == "agg" else {}
    # (iterator adaptors consume their own iterator state, not the vector the iterator borrows)
    muts = [mir.short(tm[1]) for bi, t, tm in nb.real_calls() if nb.mut_args(t) and tm[2] and render(tm[2][0]) == p and
            not tm[1].startswith("std::iter::Iterator::")]
    ctx.check("MarketDataInMemory::new", f.get("events") == p and not muts,
              "the stored events are the given dataset itself, in its own order (no sort / filter / copy on the way in)",
              got={"events": f.get("events", "")[:200], "mutating calls on it": muts}, key="dataset-verbatim")


def r8(ctx):
    """'concurrent backtests ... do not affect one another': each backtest owns its clock, exchange, engine and channels (R2, R5); what
    is left to share is process-wide state.  The workspace's library code declares no `static` other than logging call sites - a
    static with interior mutability (counter, cache, registry, thread-local) would be shared by every backtest in the process."""
    SHARED = ("Atomic", "Mutex", "RwLock", "OnceLock", "OnceCell", "LazyLock", "LazyCell", "Lazy<", "Cell<", "RefCell", "LocalKey", "UnsafeCell", "static mut")
    n = 0
    bad = []
    for d, r in sorted(ctx.facts.bodies.items()):
        if r.get("kind") != "static" or r.get("test"):
            continue
        n += 1
        ty = r["locals"][0]["ty"] if r.get("locals") else "?"
        if ty.startswith("tracing::"):
            continue
        if any(k in ty for k in SHARED) or r.get("mutable"):
            bad.append((mir.short(d), ty[:80], r.get("span")))
    ctx.check("workspace statics", not bad, "no process-wide mutable state (the only statics are tracing call sites)", got=bad,
              sites=[x[2] for x in bad], key="no-shared-state")
    ctx.floor("statics examined", n, 100)


def r4(ctx):
    b = _coroutine(ctx, "::init_internal::{closure#0}", "barter::system::builder::SystemBuild::")
    calls = b.real_calls()
    ch = [(bi, t, tm) for bi, t, tm in calls if mir.short(tm[1]) == "channel::mpsc_unbounded"]
    fw = [(bi, t, tm) for bi, t, tm in calls if tm[1].endswith("::forward_to") and "market_stream" in render(tm[2][0])]
    ok = len(fw) == 1
    ctx.check("SystemBuild::init_internal", ok, "the market stream is forwarded once", got=[render(x[2])[:120] for x in fw], key="forward")
    if not ok:
        return
    tx = fw[0][2][2][1]
    # one channel, created here: `mpsc_unbounded()` (tx = .0, rx = .1) or `Channel::new()` (its wrapper: fields tx / rx)
    cn = ctx.ibody(ctx.find(path="barter_integration::channel::Channel::<T>::new", optional=True) or
                   [d for d in ctx.facts.bodies if mir._strip_generics(d) == "barter_integration::channel::Channel::new"][0])
    wrapper_ok = render(cn.return_term()) == "Channel::Channel{tx: channel::mpsc_unbounded().0, rx: channel::mpsc_unbounded().1}" and \
        len([1 for _, _, tm_ in cn.real_calls() if mir.short(tm_[1]) == "channel::mpsc_unbounded"]) == 1
    ch2 = [(bi, t, tm) for bi, t, tm in calls if mir.short(tm[1]) == "Channel::new"] if wrapper_ok else []
    src = [(c, ("0",), ("1",)) for c in ch if mir.mk_proj(c[2], ("0",)) == tx] + [(c, ("tx",), ("rx",)) for c in ch2 if mir.mk_proj(c[2], ("tx",)) == tx]
    ctx.check("SystemBuild::init_internal", len(src) == 1, "into the transmitter half of the engine feed channel", got=render(tx), key="feed-tx")
    if len(src) != 1:
        return
    rx = mir.mk_proj(src[0][0][2], src[0][2])
    # every engine runner closure captures that receiver
    runners = 0
    good = 0
    for blk in b.blocks:
        for s in blk["stmts"]:
            rv = s.get("rv")
            if rv and rv["r"] == "agg" and rv["kind"]["k"] in ("closure", "coroutine"):
                term = b.rvalue_term(rv)
                cd = rv["kind"]["def"]
                names = set()
                for dd in [cd] + ctx.closures_of(cd):
                    if dd in ctx.facts.bodies:
                        for _, _, tm2 in ctx.ibody(dd).real_calls():
                            names.add(mir.short(tm2[1]))
                            for sub in mir.subterms(tm2):
                                if sub[0] == "agg" and sub[1].startswith("closure:"):
                                    names.add(mir.short(sub[1][8:]))
                if any(("sync_run" in n or "async_run" in n) for n in names):
                    runners += 1
                    if any(x == rx for x in term[3]):
                        good += 1
    ctx.check("SystemBuild::init_internal", runners >= 4 and good == runners,
              "every engine runner consumes the receiver half of that same channel", got=(runners, good), key="feed-rx")
    # the System keeps that feed_tx (used later to send Shutdown)
    oks = [t for g, t, bi in b.expanded_cases(0) if render(t).startswith("Result::Ok")]
    ctx.check("SystemBuild::init_internal", len(oks) == 1 and ("feed_tx: %s" % render(tx)) in render(oks[0]),
              "the System's feed_tx is that same transmitter", got=[render(x)[:200] for x in oks], key="system-feed-tx")


def r5(ctx):
    b = _coroutine(ctx, "barter::backtest::run_backtests::{closure#0}")
    mp = [tm for bi, t, tm in b.real_calls() if tm[1].endswith("Iterator::map")]
    ok = len(mp) == 1 and render(mp[0][2][0]) == "^args_dynamic_iter"
    ctx.check("run_backtests", ok, "one backtest per dynamic argument set", got=[render(x)[:120] for x in mp], key="map")
    if ok:
        cb, _ = mir.closure_body(ctx.facts, mp[0][2][1])
        rt = mir.in_closure(ctx.facts, mp[0][2][1], cb.return_term())
        ctx.check("run_backtests", render(rt) == "closure:backtest::{closure#0}{^args_constant, $1}",
                  "each backtest receives (a clone of the Arc to) the shared constants and its own dynamic arguments", got=render(rt), key="args")
        # the clone is an Arc clone: parameter type of backtest
        bt = ctx.ibody(ctx.find(path="barter::backtest::backtest"))
        ctx.check("run_backtests", bt.locals[1]["ty"].startswith("std::sync::Arc<barter::backtest::BacktestArgsConstant<"),
                  "the constants are shared through an Arc (read-only handle)", got=bt.locals[1]["ty"][:80], key="arc")
    # nothing takes &mut of the shared constants
    bad = []
    for suffix in ("barter::backtest::backtest::{closure#0}", "barter::backtest::run_backtests::{closure#0}"):
        cb = _coroutine(ctx, suffix)
        for bi, t, tm in cb.real_calls():
            for i in cb.mut_args(t):
                if i < len(tm[2]) and render(tm[2][i]).startswith("^args_constant") and not tm[1].startswith("std::iter::Iterator::"):
                    bad.append((mir.short(tm[1]), render(tm[2][i])[:80], t["sp"]))
        for bi, si, path, value, s in cb.stores():
            if render(path).startswith("^args_constant"):
                bad.append(("store", render(path)[:80], s["sp"]))
    # `executions.clone().into_iter()` hands out &mut of a CLONE's iterator, not of the shared data
    bad = [x for x in bad if not x[0].startswith(("Iterator::", "IntoIterator::"))]
    ctx.check("backtest", not bad, "nothing mutates what is reached through the shared constants", got=bad, key="no-mutation")


def r6(ctx):
    """the (non-audited) runners used by backtests process every event taken from the feed, in feed order, until a
    terminal audit or the end of the feed"""
    n = 0
    # (with AuditMode::Enabled a backtest runs through the audited runners: the same obligations hold for them)
    for path, label in (("barter::engine::run::async_run::{closure#0}", "async_run"), ("barter::engine::run::sync_run", "sync_run"),
                        ("barter::engine::run::async_run_with_audit::{closure#0}", "async_run_with_audit"),
                        ("barter::engine::run::sync_run_with_audit", "sync_run_with_audit")):
        b = ctx.ibody(ctx.find(path=path))
        calls = b.real_calls()
        P = common.processing_sites(calls)
        ok = len(P) == 1
        ctx.check(label, ok, "one processing site", got=len(P), key="shape")
        if not ok:
            continue
        pb, pt, ptm, p_engine, p_event = P[0]
        ev = render(p_event)
        ctx.check(label, render(p_engine) in ("engine", "^engine") and ev.endswith(".as:Some.0") and ("next(feed)" in ev or "next(^feed)" in ev),
                  "the event processed is the item just taken from the feed", got=render(ptm)[:160], key="item")
        heads = {x for x in b.reachable if b.blocks[x]["term"]["t"] == "false_unwind"}
        starts = []
        for x in b.reachable:
            tt = b.blocks[x]["term"]
            if tt["t"] == "switch":
                for lab, y in b.succ[x]:
                    a = b.edge_atom(x, lab)
                    if a[0] == "is" and a[2] == frozenset(["Some"]) and ("next(feed)" in render(a[1]) or "next(^feed)" in render(a[1])):
                        starts.append(y)
        skipped = set()
        for y in starts:
            seen, stack = set(), [y]
            while stack:
                z = stack.pop()
                if z in seen or z == pb:
                    continue
                seen.add(z)
                if z in heads or z == mir.EXIT:
                    skipped.add(z)
                    continue
                stack.extend(w for _, w in b.succ[z])
        n += 1
        ctx.check(label, bool(starts) and not skipped, "no event taken from the feed is skipped (every path from `Some(event)` passes process_with_audit)",
                  got=sorted(skipped), key="none-skipped")
        # after processing, the loop continues unless the audit is terminal
        g_loop = [a for x in heads for conj in b.guard(x) for a in conj]
        term = [(bi, t, tm) for bi, t, tm in calls if tm[1].endswith("Terminal::is_terminal")]
        ctx.check(label, len(term) == 1 and render(term[0][2][2][0]) == render(ptm) + ".event",
                  "the only reason to stop before the feed ends is a terminal audit of the event just processed", got=[render(x[2])[:120] for x in term], key="stop")
        # ... and the run is declared ended (FeedEnded) in exactly one place, for no reason other than the feed having ended
        fe = [(bi, tm) for bi, t, tm in calls if tm[1].endswith("Auditor::audit") and "FeedEnded" in render(tm)]
        extra = []
        for bi, tm in fe:
            for conj in b.guard(bi):
                for a in conj:
                    r_ = mir.render_atom(a)
                    if "Terminal::is_terminal(" in r_ or "next(feed)" in r_ or "next(^feed)" in r_:
                        continue
                    extra.append(r_[:140])
        ctx.check(label, len(fe) == 1 and not extra,
                  "FeedEnded is declared once, when the feed yields no further event - nothing else (a closed audit channel, a flag, a count) ends the run early",
                  got={"sites": len(fe), "other conditions": sorted(set(extra))}, key="ends-with-feed")
    ctx.floor("runners", n, 4)


def r7(ctx):
    """a recorded dataset is replayed through ReconnectingStream::with_error_handler: a recoverable error item is skipped,
    never the end of the feed (= C12.R4)"""
    from rules import C12
    C12.r4(ctx)


RULES = [
    ("R6", "the non-audited runners process every feed item in order until a terminal audit / end of feed", r6),
    ("R1", "drain before shutdown: Shutdown sent only after the market forwarder completed; engine awaited afterwards", r1),
    ("R2", "backtest() wiring: own clock/execution/engine from shared constants, own strategy/risk, own summary", r2),
    ("R3", "MarketDataInMemory::stream yields events[i] for i in 0..len in order", r3),
    ("R4", "market stream forwarded into the same feed the engine runner consumes", r4),
    ("R5", "shared constants are handed out as Arc clones and never mutated", r5),
    ("R7", "recorded streams: the error handler skips error items, it does not end the feed (= C12.R4)", r7),
    ("R8", "isolation: no process-wide mutable state in workspace library code (statics = logging call sites only)", r8),
]
