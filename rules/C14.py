"""C14 - global connectivity is healthy exactly when every exchange link is."""
from sa import atoms, mir, table, whomay
from sa.mir import render, render_guard
from rules import common

EXPLANATION = (
    "Exact store sets with exact guards on the four ConnectivityStates updaters (disconnect: global and the named "
    "link := Reconnecting unconditionally, nothing else; event: the named link := Healthy iff global and that link "
    "are not already healthy, and global := Healthy only under exchange_states().all(all_healthy) evaluated after the "
    "link store), the all_healthy truth table, who-may-write tables for the three health fields, and the engine-side "
    "routing (disconnect notice -> matching updater and Strategy::on_disconnect exactly once with that exchange; item "
    "-> the matching *_event updater with the event's own exchange). The iff over histories follows by the induction "
    "in DESIGN.md App. D."
)
NOT_DECIDED = ["the invariant over whole histories (paper induction over R1-R4)", "user on_disconnect strategies"]
ASSUMPTIONS = ["Iterator::all / IndexMap::values semantics"]

CS = "barter::engine::state::connectivity::ConnectivityStates"
C1 = "barter::engine::state::connectivity::ConnectivityState"
ENG = "barter::engine::Engine"


def _link(path, field):
    """path is <connectivity_mut|connectivity_index_mut>(self, exchange).<field>"""
    if path[0] != "proj" or path[2] != (field,):
        return False
    c = path[1]
    return c[0] == "call" and mir.short(c[1]) in ("ConnectivityStates::connectivity_mut", "ConnectivityStates::connectivity_index_mut") \
        and [render(a) for a in c[2]] == ["self", "exchange"]


def _is_health(v, name):
    return v[0] == "agg" and v[1].endswith("connectivity::Health::" + name)


def r1(ctx):
    n = 0
    for fn, field in (("update_from_account_reconnecting", "account"), ("update_from_market_reconnecting", "market_data")):
        b = ctx.fibody(name=fn, self_adt=CS, trait="")
        st = b.stores()
        glob = [s for s in st if render(s[2]) == "self.global"]
        link = [s for s in st if _link(s[2], field)]
        other = [s for s in st if s not in glob and s not in link]
        true = frozenset([frozenset()])
        ok = (len(glob) == 1 and len(link) == 1 and not other and _is_health(glob[0][3], "Reconnecting")
              and _is_health(link[0][3], "Reconnecting") and b.guard(glob[0][0]) == true and b.guard(link[0][0]) == true)
        n += 1
        ctx.check("ConnectivityStates::" + fn, ok,
                  "a disconnect notice sets global and exactly the named exchange's `%s` link to Reconnecting, unconditionally, "
                  "and nothing else" % field, sites=[s[4]["sp"] for s in st],
                  got=[(render(s[2]), render(s[3]), render_guard(b.guard(s[0]))) for s in st], key="stores")
        mut = [mir.short(tm[1]) for bi, t, tm in b.real_calls() if common.mutates_self(b, t, tm)]
        ctx.check("ConnectivityStates::" + fn, set(mut) <= {"ConnectivityStates::connectivity_mut"},
                  "no other mutation", got=mut, key="no-other-mutation")
    ctx.floor("disconnect updaters", n, 2)


def r2(ctx):
    n = 0
    for fn, field in (("update_from_account_event", "account"), ("update_from_market_event", "market_data")):
        b = ctx.fibody(name=fn, self_adt=CS, trait="")
        st = b.stores()
        glob = [s for s in st if render(s[2]) == "self.global"]
        link = [s for s in st if _link(s[2], field)]
        other = [s for s in st if s not in glob and s not in link]
        ok = len(glob) == 1 and len(link) == 1 and not other and _is_health(glob[0][3], "Healthy") and _is_health(link[0][3], "Healthy")
        ctx.check("ConnectivityStates::" + fn, ok, "exactly two stores: the addressed `%s` link := Healthy and global := Healthy" % field,
                  sites=[s[4]["sp"] for s in st], got=[(render(s[2]), render(s[3])) for s in st], key="stores")
        if not ok:
            continue
        n += 1
        lg, gg = b.guard(link[0][0]), b.guard(glob[0][0])
        fa = common.forall_loop(b, glob[0][0])

        def norm(g):
            out = set()
            if len(g) != 1:
                return None
            for a in next(iter(g)):
                c = atoms.atom_cmp(a)
                if c and c[0] in ("eq", "ne"):
                    l, r = c[1], c[2]
                    if _is_health(l, "Healthy"):
                        l, r = r, l
                    if _is_health(r, "Healthy"):
                        what = "global" if render(l) == "self.global" else ("link" if _link(l, field) else render(l))
                        out.add((what, c[0] == "eq"))
                        continue
                if a[0] == "is" and a[3] and a[3].endswith("::Health") and (render(a[1]) == "self.global" or _link(a[1], field)):
                    # variant test (`matches!(x, Health::Healthy)`) instead of `x == Health::Healthy`
                    if a[2] in (frozenset(["Healthy"]), frozenset(["Reconnecting"])):
                        out.add(("global" if render(a[1]) == "self.global" else "link", a[2] == frozenset(["Healthy"])))
                        continue
                if a[0] == "is" and a[2] == frozenset(["None"]) and a[1][0] == "call" and a[1][1].endswith("Iterator::next"):
                    # exhaustion of a loop: must be the for-all loop over every exchange with predicate all_healthy
                    out.add(("all_healthy" if fa and fa[0] in ("ConnectivityStates::exchange_states(self)", "IndexMap::values(self.exchanges)")
                             and fa[1] == "ConnectivityState::all_healthy($x)" else "loop(?)", True))
                    continue
                out.add((mir.render_atom(a), True))
            return out
        want_link = {("global", False), ("link", False)}
        ctx.check("ConnectivityStates::" + fn + ":link", norm(lg) == want_link,
                  "the link is marked healthy exactly when global is not healthy and the link is not already healthy",
                  sites=[link[0][4]["sp"]], got=render_guard(lg), key="guard")
        ctx.check("ConnectivityStates::" + fn + ":global", norm(gg) == want_link | {("all_healthy", True)},
                  "global becomes healthy only when every exchange's links are healthy (recomputed conjunction)",
                  sites=[glob[0][4]["sp"]], got=render_guard(gg), key="guard")
        # the conjunction is evaluated after the link store
        lb, lsi = link[0][0], link[0][1]
        ok_after = fa is not None and b.dominates(lb, fa[2]) and lb != fa[2]
        ctx.check("ConnectivityStates::" + fn + ":global", ok_after,
                  "all_healthy is evaluated after the link has been marked healthy", key="order")
        mut = [mir.short(tm[1]) for bi, t, tm in b.real_calls() if common.mutates_self(b, t, tm)]
        ctx.check("ConnectivityStates::" + fn, set(mut) <= {"ConnectivityStates::connectivity_mut", "ConnectivityStates::connectivity_index_mut"},
                  "no other mutation", got=mut, key="no-other-mutation")
    ctx.floor("event updaters", n, 2)
    es = ctx.fibody(name="exchange_states", self_adt=CS, trait="")
    ctx.check("ConnectivityStates::exchange_states", render(es.return_term()) == "IndexMap::values(self.exchanges)",
              "iterates every exchange's state", got=render(es.return_term()), key="all-exchanges")
    for fn in ("connectivity_mut", "connectivity_index_mut"):
        cb = ctx.fibody(name=fn, self_adt=CS, trait="")
        look = [tm for bi, t, tm in cb.real_calls() if mir._strip_generics(tm[1]).endswith(("::get_mut", "::get_index_mut"))]
        ctx.check("ConnectivityStates::" + fn, len(look) == 1 and render(look[0][2][0]) == "self.exchanges" and
                  render(look[0][2][1]) in ("key", "key.0"), "looks up the addressed exchange in self.exchanges",
                  got=[render(x) for x in look], key="lookup")


def r3(ctx):
    b = ctx.fibody(name="all_healthy", self_adt=C1, trait="")
    cases = b.expanded_cases(0)

    def val(cell):
        def v(a):
            # `matches!(x, Health::Healthy)` / a match on the value: a variant test instead of `==`
            if a[0] == "is" and render(a[1]) in ("self.market_data", "self.account"):
                return ("Healthy" if cell[render(a[1])[5:]] == "healthy" else "Reconnecting") in a[2]
            c = atoms.atom_cmp(a)
            if c and c[0] in ("eq", "ne"):
                l, r = (c[1], c[2]) if _is_health(c[2], "Healthy") else (c[2], c[1])
                if _is_health(r, "Healthy") and render(l) in ("self.market_data", "self.account"):
                    return (cell[render(l)[5:]] == "healthy") == (c[0] == "eq")
            return None
        return v
    for cell in table.cells({"market_data": ["healthy", "reconnecting"], "account": ["healthy", "reconnecting"]}):
        res = set()
        try:
            for g, term, bi in cases:
                if table.eval_guard(g, val(cell)):
                    if term[0] == "const":
                        res.add(term[1] in ("true", "1", "const true"))
                    else:
                        c = atoms.cmp_term(term)
                        if c and c[0] == "eq" and _is_health(c[2], "Healthy") and render(c[1]) in ("self.market_data", "self.account"):
                            res.add(cell[render(c[1])[5:]] == "healthy")
                        else:
                            res.add("?" + render(term))
        except table.UnknownAtom as ex:
            res = {"unknown atom " + str(ex)}
        want = cell["market_data"] == "healthy" and cell["account"] == "healthy"
        ctx.check("ConnectivityState::all_healthy:%s/%s" % (cell["market_data"], cell["account"]), res == {want},
                  "all_healthy = both links healthy", got=sorted(map(str, res)), want=want, key="cell")


def r4(ctx):
    allowed = {
        (CS, "global"): {"update_from_account_reconnecting", "update_from_market_reconnecting", "update_from_account_event",
                         "update_from_market_event"},
        (C1, "market_data"): {"update_from_market_reconnecting", "update_from_market_event"},
        (C1, "account"): {"update_from_account_reconnecting", "update_from_account_event"},
    }
    for (adt, fld), fns in allowed.items():
        bad = []
        n = 0
        for d, bi, kind, sp in whomay.writers_of(ctx.facts, adt, fld):
            o = whomay.owner_fn(d)
            if common.is_test(ctx.facts, d) or common.is_derived(ctx.facts, o) or kind == "construct":
                continue
            n += 1
            # a write inside an un-named private helper is attributed to the functions that call the helper
            for eo in common.effective_owners(ctx.facts, d):
                rec = ctx.facts.bodies.get(eo, {})
                if not (rec.get("impl_self_adt") == CS and rec.get("name") in fns):
                    bad.append((mir.short(eo), kind, sp))
        ctx.check("%s.%s" % (mir.short(adt).split("::")[-1], fld), not bad,
                  "only the matching connectivity updaters write this health field", got=bad, sites=[x[2] for x in bad], key="writers")
        ctx.floor("writers of %s.%s" % (mir.short(adt).split("::")[-1], fld), n, 2)
    # constructors start all-reconnecting
    g = ctx.ibody(ctx.find(path="barter::engine::state::connectivity::generate_empty_indexed_connectivity_states"))
    rt = g.return_term()
    f = dict(zip(rt[2], rt[3])) if rt[0] == "agg" else {}
    ctx.check("generate_empty_indexed_connectivity_states", "global" in f and _is_health(f["global"], "Reconnecting"),
              "initial global state is Reconnecting", got=render(f.get("global", ("const", "?", ""))), key="initial")
    d = [i for i in ctx.facts.impls if i.get("self_adt") == "barter::engine::state::connectivity::Health" and i.get("trait") == "std::default::Default"]
    ok = False
    if d:
        db = ctx.ibody(d[0]["items"][0]["def"])
        ok = _is_health(db.return_term(), "Reconnecting")
    ctx.check("Health::default", ok, "default link health is Reconnecting", key="default")


def r5(ctx):
    n = 0
    for fn, upd, item_callee, evvar in (
            ("update_from_account_stream", "update_from_account_reconnecting", "EngineState::update_from_account", "AccountStreamEvent"),
            ("update_from_market_stream", "update_from_market_reconnecting", "EngineState::update_from_market", "MarketStreamEvent")):
        b = ctx.fibody(name=fn, self_adt=ENG, trait="")
        calls = b.real_calls()

        def arm(bi, variant):
            # exactly `event is <variant>` - no further condition may suppress the call
            g = b.guard(bi)
            return len(g) == 1 and len(next(iter(g))) == 1 and \
                all(a[0] == "is" and render(a[1]) == "event" and a[2] == frozenset([variant]) for a in next(iter(g)))
        up = [(bi, t, tm) for bi, t, tm in calls if mir.short(tm[1]) == "ConnectivityStates::" + upd]
        od = [(bi, t, tm) for bi, t, tm in calls if tm[1].endswith("OnDisconnectStrategy::on_disconnect")]
        ok = len(up) == 1 and len(od) == 1 and arm(up[0][0], "Reconnecting") and arm(od[0][0], "Reconnecting")
        ctx.check("Engine::" + fn + ":Reconnecting", ok, "every disconnect notice (unconditionally) calls the matching updater and on_disconnect exactly once",
                  got=(len(up), len(od)), key="once")
        if ok:
            n += 1
            ex = "event.as:Reconnecting.0"
            ctx.check("Engine::" + fn + ":Reconnecting",
                      [render(a) for a in up[0][2][2]] == ["self.state.connectivity", ex] and [render(a) for a in od[0][2][2]] == ["self", ex],
                      "both act on the engine's own connectivity state and the notice's own exchange",
                      sites=[up[0][1]["sp"], od[0][1]["sp"]], got=[render(up[0][2]), render(od[0][2])], key="args")
            ctx.check("Engine::" + fn + ":Reconnecting", b.dominates(up[0][0], od[0][0]),
                      "state is updated before the strategy hook runs", key="order")
        it = [(bi, t, tm) for bi, t, tm in calls if mir.short(tm[1]) == item_callee]
        ok = len(it) == 1 and arm(it[0][0], "Item") and [render(a) for a in it[0][2][2]] == ["self.state", "event.as:Item.0"]
        ctx.check("Engine::" + fn + ":Item", ok, "an item is applied to the engine state through " + item_callee,
                  got=[render(x[2]) for x in it], key="item")
    ctx.floor("stream handlers", n, 2)
    # on_disconnect has no other library caller
    cs = [c for c in whomay.callers_matching(ctx.facts, lambda c: c.endswith("OnDisconnectStrategy::on_disconnect"))
          if not common.is_test(ctx.facts, c[1])]
    owners = sorted(set(mir.short(whomay.owner_fn(c[1])) for c in cs))
    ctx.check("OnDisconnectStrategy::on_disconnect", owners == ["Engine::update_from_account_stream", "Engine::update_from_market_stream"],
              "the disconnect hook is invoked only from the two stream handlers", got=owners, key="callers")
    # EngineState marks the link healthy from the event's own exchange
    ES = "barter::engine::state::EngineState"
    for fn, upd in (("update_from_account", "update_from_account_event"), ("update_from_market", "update_from_market_event")):
        b = ctx.fibody(name=fn, self_adt=ES, trait="")
        cs = [(bi, t, tm) for bi, t, tm in b.real_calls() if mir.short(tm[1]) == "ConnectivityStates::" + upd]
        ok = len(cs) == 1 and [render(a) for a in cs[0][2][2]] == ["self.connectivity", "event.exchange"] and \
            b.guard(cs[0][0]) == frozenset([frozenset()])
        ctx.check("EngineState::" + fn, ok, "every event marks its own exchange's link (unconditionally reached)",
                  got=[render(x[2]) for x in cs], key="marks-link")


def r6(ctx):
    """account items address a link by ExchangeIndex (position), market items and notices by ExchangeId (key): both must name
    the same entry, i.e. the table must be aligned with the exchange index space (shared with C11 IDX.R2)"""
    from rules import common_idx
    common_idx.idx_r2(ctx, only={(CS, "exchanges")}, floor=1)
    uses = [u for u in common_idx.positional_uses(ctx) if u["field"] == (CS, "exchanges")]
    ctx.check("ConnectivityStates.exchanges", len(uses) >= 2 and all(u["kind"] == "Exchange" for u in uses),
              "positional lookups of the connectivity table use exchange indices", got=[(u["kind"], u["sp"]) for u in uses], key="positional")


RULES = [
    ("R6", "the connectivity table is aligned with the exchange index space (position == ExchangeIndex)", r6),
    ("R1", "disconnect writes: global and the named link := Reconnecting, unconditionally, nothing else", r1),
    ("R2", "recovery writes: exact guards of the link store and the global store; conjunction recomputed after the link store", r2),
    ("R3", "all_healthy truth table", r3),
    ("R4", "who-may-write the three health fields; initial state all-reconnecting", r4),
    ("R5", "engine routing: disconnect -> updater + on_disconnect once with that exchange; item -> *_event of the event's exchange", r5),
]
