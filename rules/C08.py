"""C08 - the simulated exchange keeps a consistent ledger."""
import sympy

from sa import atoms, formula, mir, whomay
from sa.mir import render, render_guard
from rules import common

EXPLANATION = (
    "Rules on MockExchange::open_order's MIR: (R1) per order side, the balance looked up for debiting and the asset "
    "named in the insufficient-balance error are the quote asset for Buy and the base asset for Sell; (R2) both "
    "balance stores are control-dependent on `free - required >= 0` and store exactly that difference, and no "
    "store can reach a rejecting return; (R3) the required amount and the fee are the documented expressions "
    "(sympy-normalised); (R4) order ids are read-then-incremented, drawn exactly once on the accepting path only, and "
    "the trade id derives from the order id; (R5) accept => Some(balance, trade) notifications, reject => None, and "
    "the run loop acknowledges the trade and sends balance-then-trade exactly once; (R6) who-may-write tables for "
    "balances and the trade log, `trades(since)` filters with >=."
)
NOT_DECIDED = ["non-negativity over sequences (follows inductively from R2)", "notification latency / timing",
               "that tokio broadcast delivers the two notifications"]
ASSUMPTIONS = ["rust_decimal operators/comparisons are arithmetic", "FnvHashMap::get_mut returns the entry of the key"]

MX = "barter_execution::exchange::mock::MockExchange"
ACC = "barter_execution::exchange::mock::account::AccountState"


def _side_of(g):
    s = set()
    for conj in g:
        for a in conj:
            if a[0] == "is" and render(a[1]) == "request.state.side":
                s |= set(a[2])
    return "|".join(sorted(s)) or "?"


WANT_ASSET = {"Buy": "quote", "Sell": "base"}


def r1(ctx):
    b = ctx.fibody(name="open_order", self_adt=MX, trait="")
    n = 0
    for bi, t, term in b.real_calls():
        if mir.short(term[1]) != "AccountState::balance_mut":
            continue
        n += 1
        side = _side_of(b.guard(bi))
        key = term[2][1]
        want = WANT_ASSET.get(side)
        ok = want is not None and atoms.ends_with(key, "underlying", want) and "find_instrument_data(self, request.key.instrument)" in render(key)
        ctx.check("MockExchange::open_order:%s:debited-asset" % side, ok,
                  "a %s order spends the instrument's %s asset: the balance debited must be looked up under underlying.%s"
                  % (side, want, want), sites=[t["sp"]], got=render(key), key="asset")
    ctx.floor("balance_mut lookups (one per side)", n, 2)
    # the insufficient-balance error names the same asset
    m = 0
    for blk in b.blocks:
        if blk["cleanup"] or blk["i"] not in b.reachable:
            continue
        for s in blk["stmts"]:
            rv = s.get("rv")
            if rv and rv["r"] == "agg" and rv["kind"].get("variant") == "BalanceInsufficient":
                m += 1
                side = _side_of(b.guard(blk["i"]))
                want = WANT_ASSET.get(side)
                a0 = b.operand_term(rv["ops"][0])
                ctx.check("MockExchange::open_order:%s:error-asset" % side,
                          want is not None and atoms.ends_with(a0, "underlying", want),
                          "the insufficient-balance error names the asset that was checked", sites=[s["sp"]],
                          got=render(a0), key="asset")
    ctx.floor("BalanceInsufficient constructions", m, 2)


def _balance_stores(b):
    out = []
    for bi, si, path, value, s in b.stores():
        if "AccountState::balance_mut" in render(path) and atoms.ends_with(path, "balance", "free") | atoms.ends_with(path, "balance", "total"):
            out.append((bi, si, path, value, s))
    return out


def r2(ctx):
    b = ctx.fibody(name="open_order", self_adt=MX, trait="")
    st = _balance_stores(b)
    ctx.floor("stores to balance.free/total", len(st), 4)
    rej = [bi for bi, t, term in b.real_calls() if mir.short(term[1]) == "mock::build_open_order_err_response"]
    ctx.floor("rejecting responses", len(rej), 3)
    for bi, si, path, value, s in st:
        side = _side_of(b.guard(bi))
        which = path[2][-1]
        g = b.guard(bi)

        def suff(kind, x):
            if kind != "cmp":
                return False
            op, a, bb_, _c = x
            # ZERO <= value   (value >= ZERO) - or, the same condition with the subtraction moved across: required <= free
            if op in ("le",) and render(a) == "rust_decimal::Decimal::ZERO" and bb_ == value:
                return True
            return op in ("le",) and value[0] == "call" and value[1] == "std::ops::Sub::sub" and a == value[2][1] and bb_ == value[2][0]
        ok = atoms.guard_implies(ctx.facts, b, g, suff)
        ctx.check("MockExchange::open_order:%s:%s" % (side, which), ok,
                  "the debit is control-dependent on `free - required >= 0` and stores exactly that difference",
                  sites=[s["sp"]], got={"value": render(value)[-160:], "guard": render_guard(g)[-300:]}, key="check-then-debit")
        # iff: nothing else decides acceptance
        extra = []
        for conj in g:
            for a in conj:
                r = mir.render_atom(a)
                if a[0] == "is" and render(a[1]) in ("request.state.side",):
                    continue
                if a[0] == "is" and a[1][0] == "call" and mir.short(a[1][1]) in ("MockExchange::validate_order_kind_supported", "MockExchange::find_instrument_data") and a[2] == frozenset(["Ok"]):
                    continue
                if suff("cmp", (atoms.atom_cmp(a) or (None, None, None)) + (None,)) if atoms.atom_cmp(a) else False:
                    continue
                extra.append(r[:140])
        ctx.check("MockExchange::open_order:%s:%s" % (side, which), not extra,
                  "an order is accepted if and only if it is a supported kind on a known instrument and the balance suffices "
                  "(no further condition)", sites=[s["sp"]], got=sorted(set(extra)), key="iff")
        # value = free - required of the same balance
        okv = value[0] == "call" and value[1] == "std::ops::Sub::sub" and \
            value[2][0] == mir.mk_proj(path[1] if path[0] == "proj" else path, path[2][:-1] + ("free",)) if path[0] == "proj" else False
        ctx.check("MockExchange::open_order:%s:%s" % (side, which), bool(okv),
                  "the new amount is the old free amount of that same balance minus the required amount",
                  sites=[s["sp"]], got=render(value)[-200:], key="difference")
        # (a path is infeasible when the two blocks' guards contradict each other, e.g. the store needs `free - required >= 0`
        #  and the rejection needs its negation - as after `if try_debit(..) { accept } else { reject }`)
        bad = [r for r in _rejection_sources(b, rej) if (_reaches(b, bi, r) or r == bi) and mir.dnf_and(g, b.guard(r))]
        ctx.check("MockExchange::open_order:%s:%s" % (side, which), not bad,
                  "no balance store lies on a path that ends in a rejection", sites=[s["sp"]], key="no-reject-after-debit")


def _rejection_sources(b, rej):
    """blocks that decide a rejection: the rejecting call itself, or - when the rejection is taken on
    `match result { Err(..) => reject }` after a join - the blocks that assign an Err to that result"""
    out = set()
    for r in rej:
        srcs = set()
        for conj in b.guard(r):
            for a in conj:
                if a[0] == "is" and a[2] == frozenset(["Err"]) and a[1][0] == "phi" and len(a[1]) > 2 and a[1][2] is not None:
                    for g, term, bi in b.local_cases(a[1][2]):
                        if term[0] == "agg" and term[1].endswith("Result::Err"):
                            srcs.add(bi)
        out |= srcs or {r}
    return sorted(out)


def _reaches(b, frm, to):
    seen = set()
    stack = [y for _, y in b.succ[frm] if y != mir.EXIT]
    while stack:
        x = stack.pop()
        if x in seen:
            continue
        seen.add(x)
        if x == to:
            return True
        stack.extend(y for _, y in b.succ[x] if y != mir.EXIT)
    return False


def _sym(t):
    r = render(t)
    m = {"request.state.price": "price", "request.state.quantity": "quantity", "self.fees_percent": "fees_percent"}
    if r in m:
        return sympy.Symbol(m[r], real=True)
    return None


def r3(ctx):
    b = ctx.fibody(name="open_order", self_adt=MX, trait="")
    p, q, f = sympy.Symbol("price", real=True), sympy.Symbol("quantity", real=True), sympy.Symbol("fees_percent", real=True)
    want_req = {"Buy": p * sympy.Abs(q) + p * sympy.Abs(q) * f, "Sell": sympy.Abs(q) + sympy.Abs(q) * f}
    want_fee = {"Buy": p * sympy.Abs(q) * f, "Sell": sympy.Abs(q) * f * p}
    seen = set()
    for bi, si, path, value, s in _balance_stores(b):
        side = _side_of(b.guard(bi))
        if value[0] == "call" and value[1] == "std::ops::Sub::sub":
            try:
                e = formula.to_sympy(ctx.facts, value[2][1], sym=_sym)
                ok = side in want_req and formula.equal(e, want_req[side])
                got = str(e)
            except formula.NotAFormula as ex:
                ok, got = False, "not a formula: %s" % ex
            seen.add(side)
            ctx.check("MockExchange::open_order:%s:required" % side, ok,
                      "required amount = %s" % want_req.get(side), sites=[s["sp"]], got=got, want=str(want_req.get(side)),
                      key=path[2][-1])
    ctx.check("MockExchange::open_order:required", seen == {"Buy", "Sell"}, "both sides debit", got=sorted(seen), key="sides")
    n = 0
    for blk in b.blocks:
        if blk["cleanup"] or blk["i"] not in b.reachable:
            continue
        t = blk["term"]
        if t and t["t"] == "call" and mir.callee_path(t["f"]) and mir.short(mir.callee_path(t["f"])) == "AssetFees::quote_fees":
            side = _side_of(b.guard(blk["i"]))
            arg = b.operand_term(t["args"][0])
            try:
                e = formula.to_sympy(ctx.facts, arg, sym=_sym)
                ok = side in want_fee and formula.equal(e, want_fee[side])
                got = str(e)
            except formula.NotAFormula as ex:
                ok, got = False, "not a formula: %s" % ex
            n += 1
            ctx.check("MockExchange::open_order:%s:fee" % side, ok, "fee (in quote) = %s" % want_fee.get(side),
                      sites=[t["sp"]], got=got, want=str(want_fee.get(side)), key="fee")
    ctx.floor("fee constructions", n, 2)


def r4(ctx):
    f = ctx.find(name="order_id_sequence_fetch_add", self_adt=MX, trait="")
    b = ctx.ibody(f)
    st = b.stores()
    ok = len(st) == 1 and render(st[0][2]) == "self.order_sequence"
    ctx.check("MockExchange::order_id_sequence_fetch_add", ok, "exactly one store, to self.order_sequence",
              got=[render(s[2]) for s in st], key="store")
    if ok:
        v = st[0][3]
        e = None
        try:
            e = formula.to_sympy(ctx.facts, v)
        except formula.NotAFormula:
            pass
        ctx.check("MockExchange::order_id_sequence_fetch_add", e is not None and formula.equal(e, sympy.Symbol("self.order_sequence") + 1),
                  "the sequence advances by one", got=render(v), key="plus-one")
        rt = b.return_term()
        ctx.check("MockExchange::order_id_sequence_fetch_add", "self.order_sequence" in render(rt) and "Add" not in render(rt),
                  "the returned id is built from the pre-increment value", got=render(rt), key="returns-old")
        # the read used for the return value happens before the store
        sbi, ssi = st[0][0], st[0][1]
        reads = []
        for blk in b.blocks:
            for si, s in enumerate(blk["stmts"]):
                if "lhs" in s and not s["lhs"]["p"] and s["rv"]["r"] == "use" and b.locals[s["lhs"]["l"]]["name"] is not None:
                    if render(b.rvalue_term(s["rv"])) == "self.order_sequence":
                        reads.append((blk["i"], si))
        okr = bool(reads) and all((rb == sbi and rs < ssi) or (rb != sbi and b.dominates(rb, sbi)) for rb, rs in reads)
        ctx.check("MockExchange::order_id_sequence_fetch_add", okr, "the old value is read before the increment",
                  got=reads, key="read-before-write")
    o = ctx.fibody(name="open_order", self_adt=MX, trait="")
    cs = [(bi, t, term) for bi, t, term in o.real_calls() if term[1] == f]
    ctx.check("MockExchange::open_order:order-id", len(cs) == 1, "an order id is drawn at exactly one site", got=len(cs), key="once")
    rej = [bi for bi, t, term in o.real_calls() if mir.short(term[1]) == "mock::build_open_order_err_response"]
    if len(cs) == 1:
        bi = cs[0][0]
        ctx.check("MockExchange::open_order:order-id", not any(_reaches(o, bi, r) or _reaches(o, r, bi) for r in rej),
                  "no id is consumed on a rejecting path", sites=[cs[0][1]["sp"]], key="accept-only")
        ctx.check("MockExchange::open_order:order-id", not _reaches(o, bi, bi), "not inside a loop", key="no-loop")
        # every accepting return passes the draw: returns reachable while avoiding both the draw and rejections
        acc = _returns_avoiding(o, {bi} | set(rej))
        ctx.check("MockExchange::open_order:order-id", not acc, "every accepted order draws a fresh id",
                  got=acc, key="all-accepts")
        # ids in the response / trade derive from that draw
        rt = o.return_term()
        r = render(rt)
        ctx.check("MockExchange::open_order:order-id",
                  "id: TradeId::TradeId{0: MockExchange::order_id_sequence_fetch_add(self).0}" in r and
                  "order_id: MockExchange::order_id_sequence_fetch_add(self)" in r and
                  "id: MockExchange::order_id_sequence_fetch_add(self)" in r,
                  "order id, trade id and the trade's order id all derive from the drawn id", got=r[:300], key="derivation")


def _returns_avoiding(b, avoid):
    seen, stack, rets = set(), [0], []
    while stack:
        x = stack.pop()
        if x in seen or x in avoid:
            continue
        seen.add(x)
        for lab, y in b.succ[x]:
            if y == mir.EXIT:
                if lab == ("ret",):
                    rets.append(x)
            else:
                stack.append(y)
    return rets


def r5(ctx):
    o = ctx.fibody(name="open_order", self_adt=MX, trait="")
    cases = o.expanded_cases(0)
    n_rej = n_acc = 0
    for g, term, bi in cases:
        r = render(term)
        if term[0] == "agg" and term[1] == "tuple":
            first, second = term[3]
            if first[0] == "call" and mir.short(first[1]) == "mock::build_open_order_err_response":
                n_rej += 1
                ctx.check("MockExchange::open_order:reject", render(second) == "Option::None{}",
                          "a rejection carries no notifications", sites=[ctx.site(o, bi)], got=render(second)[:120], key="none")
            else:
                n_acc += 1
                ok = second[0] == "agg" and second[1].endswith("Option::Some") and "OpenOrderNotifications" in render(second)[:80]
                ctx.check("MockExchange::open_order:accept", ok, "an accepted order carries Some(balance, trade) notifications",
                          sites=[ctx.site(o, bi)], got=render(second)[:120], key="some")
                ctx.check("MockExchange::open_order:accept", first[0] == "agg" and "state: Result::Ok{" in render(first),
                          "an accepted order is answered with an Ok(Open) state", got=render(first)[:200], key="ok-state")
    ctx.check("MockExchange::open_order", n_rej >= 3 and n_acc == 1, "3 rejecting returns, 1 accepting return",
              got=(n_rej, n_acc), key="returns")
    # run loop: OpenOrder arm
    run = ctx.find(path="barter_execution::exchange::mock::MockExchange::run::{closure#0}")
    b = ctx.ibody(run)
    calls = b.real_calls()

    def arm(bi):
        return any(a[0] == "is" and "OpenOrder" in a[2] for c in b.guard(bi) for a in c)
    oo = [(bi, t, term) for bi, t, term in calls if mir.short(term[1]) == "MockExchange::open_order"]
    ctx.check("MockExchange::run:OpenOrder", len(oo) == 1, "open_order called once per request", got=len(oo), key="open-once")
    resp = [(bi, t, term) for bi, t, term in calls if mir.short(term[1]) == "MockExchange::respond_with_latency" and arm(bi)]
    ack = [(bi, t, term) for bi, t, term in calls if mir.short(term[1]) == "AccountState::ack_trade"]
    snd = [(bi, t, term) for bi, t, term in calls if mir.short(term[1]) == "MockExchange::send_notifications_with_latency"]
    ok = len(resp) == 1 and len(ack) == 1 and len(snd) == 1
    ctx.check("MockExchange::run:OpenOrder", ok, "respond, ack_trade and send_notifications each occur once in the arm",
              got=(len(resp), len(ack), len(snd)), key="once-each")
    if ok and oo:
        ob = oo[0][0]
        ctx.check("MockExchange::run:OpenOrder", b.dominates(ob, resp[0][0]) and resp[0][2][2][2] == mir.mk_proj(oo[0][2], ("0",)) and
                  render(resp[0][2][2][1]).endswith(".kind.as:OpenOrder.response_tx") and render(oo[0][2][2][1]).endswith(".kind.as:OpenOrder.request"),
                  "the response sent is open_order's response", got=render(resp[0][2])[:200], key="responds")
        for nm, c in (("ack_trade", ack[0]), ("send_notifications", snd[0])):
            g = b.guard(c[0])
            somes = [a for conj in g for a in conj if a[0] == "is" and a[2] == frozenset(["Some"]) and a[1] == mir.mk_proj(oo[0][2], ("1",))]
            other = sorted(set(mir.render_atom(a)[:100] for conj in g for a in conj
                               if a not in somes and not (a[0] == "is" and (a[2] <= {"OpenOrder", "Some", "Ready"}))))
            ctx.check("MockExchange::run:OpenOrder:" + nm, bool(somes) and b.dominates(ob, c[0]) and not other,
                      "performed exactly when open_order returned notifications (no other condition)", sites=[c[1]["sp"]],
                      got={"guard": render_guard(g)[-200:], "other": other}, key="iff-some")
        note = mir.mk_proj(oo[0][2], ("1", "as:Some", "0"))
        ctx.check("MockExchange::run:OpenOrder:ack_trade", ack[0][2][2][1] == mir.mk_proj(note, ("trade",)),
                  "the acknowledged trade is exactly the accepted order's trade", got=render(ack[0][2])[-120:], key="trade")
        ctx.check("MockExchange::run:OpenOrder:send_notifications", snd[0][2][2][1] == note,
                  "the notifications sent are exactly the ones open_order returned (unfiltered)", got=render(snd[0][2])[-120:], key="payload")
    # the spawned notifier sends balance then trade, once each
    sn = ctx.find(name="send_notifications_with_latency", self_adt=MX, trait="")
    inner = [d for d in ctx.closures_of(sn)]
    sends = []
    for d in inner:
        cb = ctx.ibody(d)
        for bi, t, term in cb.real_calls():
            if term[1].endswith("Sender::<T>::send"):
                sends.append((d, bi, render(term[2][1]), t["sp"]))
    names = [s[2] for s in sends]
    ctx.check("MockExchange::send_notifications_with_latency", len(sends) == 2 and "balance" in names[0] and "trade" in names[1],
              "exactly two notifications are sent: the balance snapshot, then the trade", sites=[s[3] for s in sends],
              got=names, key="two-sends")
    if len(sends) == 2:
        cb = ctx.ibody(sends[0][0])
        ctx.check("MockExchange::send_notifications_with_latency", sends[0][0] == sends[1][0] and cb.dominates(sends[0][1], sends[1][1]),
                  "balance before trade, on every path", key="order")
    sb = ctx.ibody(sn)
    ev = [(bi, t, term) for bi, t, term in sb.real_calls() if mir.short(term[1]) == "MockExchange::build_account_event"]
    ctx.check("MockExchange::send_notifications_with_latency", sorted(render(x[2][2][1]) for x in ev) == ["notifications.balance", "notifications.trade"],
              "the two events are built from the notifications' balance and trade", got=[render(x[2]) for x in ev], key="payloads")


def r6(ctx):
    # AccountState fields are private
    adt = ctx.facts.adts.get(ACC)
    if adt is None:
        raise Exception("AccountState ADT not found")
    vis = {f["name"]: f["vis"] for f in adt["variants"][0]["fields"]}
    ctx.check("AccountState", all(v != "pub" for v in vis.values()), "ledger fields are not public", got=vis, key="private")
    # writers of the trade log
    ws = [w for w in whomay.writers_of(ctx.facts, ACC, "trades") if not common.is_test(ctx.facts, w[0])]
    owners = sorted(set(mir.short(whomay.owner_fn(w[0])) for w in ws if w[2] != "construct"))
    ctx.check("AccountState.trades", set(owners) <= {"AccountState::ack_trade"},
              "only ack_trade appends to the trade log", got=owners, key="writers")
    ctx.floor("writers of AccountState.trades", len(ws), 1)
    # writers of balance amounts in the mock exchange crate
    BAL = "barter_execution::balance::Balance"
    bad = []
    n = 0
    for field in ("free", "total"):
        for d, bi, kind, sp in whomay.writers_of(ctx.facts, BAL, field):
            if common.is_test(ctx.facts, d) or kind == "construct" or common.is_derived(ctx.facts, d):
                continue
            n += 1
            for o in common.effective_owners(ctx.facts, d):
                if "::exchange::mock::" in o and mir.short(o) != "MockExchange::open_order":
                    bad.append((mir.short(o), field, sp))
    ctx.check("Balance.{free,total}", not bad, "inside the simulated exchange only open_order changes balance amounts",
              got=bad, key="writers")
    ctx.floor("assignments to Balance.free/total", n, 2)
    # trades(since) filters with >=
    tr = ctx.find(name="trades", self_adt=ACC, trait="")
    cl = ctx.closures_of(tr)
    ok = False
    got = None
    for d in cl:
        cb = ctx.ibody(d)
        c = atoms.cmp_term(cb.return_term())
        if c:
            cc = atoms.canon_cmp(*c)
            got = (cc[0], render(cc[1]), render(cc[2]))
            ok = cc[0] == "le" and render(cc[1]) == "^time_since" and render(cc[2]) == "$1.time_exchange"
    ctx.check("AccountState::trades", ok, "trades(since) keeps exactly the trades with time_exchange >= since", got=got, key="filter")
    # query arms of the run loop answer on the request's own channel with the ledger views, unfiltered
    run = ctx.ibody(ctx.find(path="barter_execution::exchange::mock::MockExchange::run::{closure#0}"))
    req = "Future::poll(UnboundedReceiver::recv(^self.request_rx), future::get_context(resume)).as:Ready.0.as:Some.0.kind"
    want = {
        "FetchAccountSnapshot": "MockExchange::account_snapshot(^self)",
        "FetchBalances": "Iterator::collect(Iterator::cloned(AccountState::balances(^self.account)))",
        "FetchOrdersOpen": "Iterator::collect(Iterator::cloned(AccountState::orders_open(^self.account)))",
        "FetchTrades": "Iterator::collect(Iterator::cloned(AccountState::trades(^self.account, %s.as:FetchTrades.time_since)))" % req,
    }
    got = {}
    for bi, t, tm in run.real_calls():
        if mir.short(tm[1]) == "MockExchange::respond_with_latency":
            tx = render(tm[2][1])
            for k in want:
                if tx == "%s.as:%s.response_tx" % (req, k):
                    got[k] = render(tm[2][2])
    ctx.check("MockExchange::run:queries", got == want,
              "each query is answered on its own channel with the ledger's view (snapshot / all balances / all open orders / trades since), unfiltered",
              got=got, want=want, key="query-arms")
    # account_snapshot reports the ledger's own balances / orders
    snap = ctx.fibody(name="account_snapshot", self_adt=MX, trait="")
    names = sorted(set(mir.short(term[1]) for _, _, term in snap.real_calls()))
    ctx.check("MockExchange::account_snapshot", "AccountState::balances" in names and "AccountState::orders_open" in names,
              "snapshots are built from the ledger's balances and open orders", got=names, key="sources")
    rt = snap.return_term()
    fl = dict(zip(rt[2], rt[3])) if rt[0] == "agg" else {}
    allowed = {"Iterator::collect", "Iterator::map", "Iterator::cloned", "Iterator::chain", "Itertools::chunk_by", "Itertools::sorted_unstable_by_key",
               "AccountState::orders_open", "AccountState::orders_cancelled"}
    # grouping: chunk_by(sorted_unstable_by_key(all orders, K), K) with K = the order's own instrument (closure or named fn);
    # then one InstrumentAccountSnapshot per group - as `.map(..).collect()` or as a complete loop pushing one per group
    grp = [tm for bi, t, tm in snap.real_calls() if mir.short(tm[1]) == "Itertools::chunk_by"]
    used, cls, shape_ok = set(), [], False
    if len(grp) == 1 and grp[0][2][0][0] == "call" and mir.short(grp[0][2][0][1]) == "Itertools::sorted_unstable_by_key":
        srt = grp[0][2][0]
        used = {"Itertools::chunk_by", "Itertools::sorted_unstable_by_key"} | set(mir.short(t[1]) for t in mir.subterms(srt[2][0]) if t[0] == "call")
        cls = [render(common.callable_return(ctx, k) or ("const", "?", "")) for k in (srt[2][1], grp[0][2][1])]
        item = "InstrumentAccountSnapshot::InstrumentAccountSnapshot{instrument: %s.0, orders: Iterator::collect(%s.1)}"
        ins = fl.get("instruments", ("none",))
        if ins[0] == "call" and ins[1].endswith("Iterator::collect") and ins[2][0][0] == "call" and ins[2][0][1].endswith("Iterator::map") and \
                common.strip_iter(ins[2][0][2][0]) == grp[0]:
            used |= {"Iterator::collect", "Iterator::map"}
            cls.append(render(common.callable_return(ctx, ins[2][0][2][1]) or ("const", "?", "")).replace("IntoIterator::into_iter($1.1)", "$1.1"))
            shape_ok = True
        else:
            vs = [v for v in common.elementwise_views(ctx, snap.defn) if v["kind"] == "loop" and v["source"] == render(common.strip_iter(grp[0]))]
            if len(vs) == 1 and vs[0]["complete"] and all(c in (("Iterator::collect($x.1)", "true"), ("Iterator::collect(IntoIterator::into_iter($x.1))", "true"))
                                                             for c in vs[0]["calls"]) and len(vs[0]["pushes"]) == 1 and vs[0]["pushes"][0][2] == "true" and \
                    vs[0]["pushes"][0][0] == ins:
                used |= {"Iterator::collect", "Iterator::map"}        # (the loop is the map + collect)
                cls.append(vs[0]["pushes"][0][1].replace("$x", "$1").replace("IntoIterator::into_iter($1.1)", "$1.1"))
                shape_ok = True
    ctx.check("MockExchange::account_snapshot", render(fl.get("exchange", ("none",))) == "self.exchange" and
              render(fl.get("balances", ("none",))) == "Iterator::collect(Iterator::cloned(AccountState::balances(self.account)))" and shape_ok and
              used == allowed and cls == ["$1.key.instrument", "$1.key.instrument",
                                          "InstrumentAccountSnapshot::InstrumentAccountSnapshot{instrument: $1.0, orders: Iterator::collect($1.1)}"],
              "the snapshot holds the exchange's id, every balance, and every open / cancelled order grouped by its own instrument "
              "(only element-preserving adaptors; sort key = group key)", got={"adaptors": sorted(used - allowed), "missing": sorted(allowed - used), "closures": cls},
              key="unfiltered")


def r7(ctx):
    """the one-step helpers open_order / run / account_snapshot rely on play exactly their roles"""
    L = common.leaf_role
    L(ctx, "AccountState::balance_mut", ctx.fibody(name="balance_mut", self_adt=ACC, trait=""),
      "the balance handed out for debiting is the ledger entry keyed by the asked asset", ret="HashMap::get_mut(self.balances, asset)", effects=["HashMap::get_mut(self.balances, asset)"])
    L(ctx, "AccountState::ack_trade", ctx.fibody(name="ack_trade", self_adt=ACC, trait=""),
      "acknowledging a trade appends that trade to the log, always", effects=["Vec::push(self.trades, trade)"])
    L(ctx, "AccountState::balances", ctx.fibody(name="balances", self_adt=ACC, trait=""), "snapshot source: all balances",
      ret="HashMap::values(self.balances)", effects=[])
    L(ctx, "AccountState::orders_open", ctx.fibody(name="orders_open", self_adt=ACC, trait=""), "snapshot source: all open orders",
      ret="HashMap::values(self.orders_open)", effects=[])
    L(ctx, "AccountState::orders_cancelled", ctx.fibody(name="orders_cancelled", self_adt=ACC, trait=""), "snapshot source: all cancelled orders",
      ret="HashMap::values(self.orders_cancelled)", effects=[])
    fr = ctx.find(name="from", self_adt=ACC, trait="std::convert::From")
    cl = ctx.closures_of(fr)
    keyed = [render(ctx.ibody(d).return_term()) for d in cl]
    ctx.check("AccountState::from", "tuple{0: $1.asset, 1: $1}" in keyed and
              render(ctx.ibody(fr).return_term()).startswith("AccountState::AccountState{balances: Iterator::collect(Iterator::map(value.balances, closure:"),
              "the initial ledger keys every balance of the snapshot by its own asset", got=keyed[:2], key="keyed-by-own-asset")
    tab = common.case_table(ctx.fibody(name="find_instrument_data", self_adt=MX, trait=""))
    hit, miss = tab.get("(HashMap::get(self.instruments, instrument) is Some)"), tab.get("(HashMap::get(self.instruments, instrument) is None)")
    ctx.check("MockExchange::find_instrument_data", len(tab) == 2 and hit == ["Result::Ok{0: HashMap::get(self.instruments, instrument).as:Some.0}"] and
              bool(miss) and len(miss) == 1 and miss[0].startswith("Result::Err{0: ApiError::InstrumentInvalid{0: instrument, "),
              "the instrument (hence the base / quote assets) is looked up by the order's own instrument name; unknown -> InstrumentInvalid",
              got={k: [x[:100] for x in v] for k, v in tab.items()}, key="role")
    tab = common.case_table(ctx.fibody(name="validate_order_kind_supported", self_adt=MX, trait=""))
    ok_keys = [k for k, v in tab.items() if v == ["Result::Ok{0: tuple{}}"]]
    ctx.check("MockExchange::validate_order_kind_supported", ok_keys == ["(order_kind is Market)"] and len(tab) == 2 and
              all(len(v) == 1 and v[0].startswith("Result::Err{0: OrderError::Rejected") for k, v in tab.items() if k not in ok_keys),
              "exactly market orders are supported; anything else is rejected", got={k: [x[:60] for x in v] for k, v in tab.items()}, key="table")
    L(ctx, "build_open_order_err_response", ctx.ibody(ctx.find(path="barter_execution::exchange::mock::build_open_order_err_response")),
      "a rejection echoes the request's own key / side / price / quantity / kind with the error",
      ret="Order::Order{key: request.key, side: request.state.side, price: request.state.price, quantity: request.state.quantity, "
          "kind: request.state.kind, time_in_force: request.state.time_in_force, state: Result::Err{0: Into::into(error)}}", effects=[])
    L(ctx, "AssetFees::quote_fees", ctx.ibody(ctx.find(path="barter_execution::trade::AssetFees::<barter_instrument::asset::QuoteAsset>::quote_fees")),
      "the fee constructor stores the given amount", ret="AssetFees::AssetFees{asset: QuoteAsset::QuoteAsset{}, fees: fees}", effects=[])
    # decided at the call sites (helper parameters replaced by the actual arguments): it does not matter whether the exchange
    # id reaches the helper through `&self` or as an explicit argument
    snb = ctx.fibody(name="send_notifications_with_latency", self_adt=MX, trait="")
    evs = []
    for bi, t, tm in snb.real_calls():
        if mir.short(tm[1]) == "MockExchange::build_account_event":
            for g, term in (common.at_call(ctx, tm) or []):
                evs.append(render(term))
    ctx.check("MockExchange::build_account_event", sorted(evs) == [
        "AccountEvent::AccountEvent{exchange: self.exchange, kind: Into::into(notifications.balance)}",
        "AccountEvent::AccountEvent{exchange: self.exchange, kind: Into::into(notifications.trade)}"],
        "the two notifications carry the exchange's own id and the balance / trade payloads", got=sorted(evs), key="role")
    L(ctx, "AccountState::update_time_exchange", ctx.fibody(name="update_time_exchange", self_adt=ACC, trait=""),
      "advancing exchange time only re-stamps balances and open orders (no amount changes)",
      effects=["HashMap::values_mut(self.balances)", "HashMap::values_mut(self.orders_open)",
               "Iterator::next(HashMap::values_mut(self.balances)) IF (Iterator::next(HashMap::values_mut(self.balances)) is Some)",
               "Iterator::next(HashMap::values_mut(self.orders_open)) IF (Iterator::next(HashMap::values_mut(self.orders_open)) is Some)",
               "Iterator::next(HashMap::values_mut(self.balances)).as:Some.0.time_exchange <- time_exchange IF (Iterator::next(HashMap::values_mut(self.balances)) is Some)",
               "Iterator::next(HashMap::values_mut(self.orders_open)).as:Some.0.state.time_exchange <- time_exchange IF (Iterator::next(HashMap::values_mut(self.orders_open)) is Some)"])


RULES = [
    ("R1", "order side selects the debited asset (Buy: quote, Sell: base), also in the error", r1),
    ("R2", "check-then-debit: stores guarded by free-required >= 0, store that difference, never before a rejection", r2),
    ("R3", "required amount and fee formulas per side", r3),
    ("R4", "fresh ids: read-then-increment, drawn once, on the accepting path only; trade id derives from it", r4),
    ("R5", "accept => Some(balance,trade) / reject => None; run loop acks and notifies exactly once, balance then trade", r5),
    ("R6", "ledger encapsulation and queries: writers of trades / balance amounts, trades(since) uses >=", r6),
    ("R7", "one-step helpers play their roles: keyed balance / instrument lookup, append-only ack, snapshot views, echoing rejection", r7),
]
