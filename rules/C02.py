"""C02 - position size and realised PnL conserve the cash flows of the fills."""
import sympy

from sa import atoms, formula, mir, table
from sa.mir import render, render_guard
from rules import common

EXPLANATION = (
    "Decision table of Position::update_from_trade over {same side, opposite side} x {|q| <, =, > open quantity}: per "
    "cell the returned (position, closed record) shape and the set of state updates (each normalised to "
    "`field := sympy-expression`, so `x += y` and `x = x + y` coincide) must equal the documented arm; every fill id is "
    "recorded; the fee of a fill is routed whole to entry (increase) or exit (reduce/close) and split pro rata on a "
    "flip with shares that sum to the fee (sympy identity); ordering facts the arithmetic relies on (average entry "
    "price before the quantity grows, flip shares before the quantity is zeroed); leaf formulas of "
    "calculate_pnl_realised / calculate_price_entry_average / Position::from; PositionManager plumbing."
)
NOT_DECIDED = ["the numerical conservation law over sequences (algebraic induction from these clauses, DESIGN.md App. D)",
               "side/size equals net signed quantity over sequences", "decimal rounding"]
ASSUMPTIONS = ["rust_decimal operators are exact arithmetic for the purpose of the algebraic identities"]
TECHNIQUE = "decision table over extracted guards + sympy-normalised state-update effects + ordering (dominance) facts"

POS = "barter::engine::state::position::Position"
PM = "barter::engine::state::position::PositionManager"

F = sympy.Symbol


def _sym(t):
    r = render(t)
    m = {"self.quantity_abs": "Q", "self.quantity_abs_max": "Qmax", "self.price_entry_average": "avg", "self.pnl_realised": "pnl",
         "self.fees_enter.fees": "fe", "self.fees_exit.fees": "fx", "trade.quantity": "tq", "trade.price": "p", "trade.fees.fees": "f",
         "trade.time_exchange": "t", "self.time_exchange_update": "tu", "Decimal::abs(trade.quantity)": "q"}
    if r in m:
        return F(m[r])
    return None


def _to(ctx, t):
    def s(x):
        if x[0] == "call" and x[1].endswith("Decimal::abs") and render(x[2][0]) == "trade.quantity":
            return F("q")
        return _sym(x)
    return formula.to_sympy(ctx.facts, t, sym=s, inline_depth=0)


OPASSIGN = {"std::ops::AddAssign::add_assign": lambda a, b: a + b, "std::ops::SubAssign::sub_assign": lambda a, b: a - b}


def _effects(ctx, b):
    """[(label, guard, block, site)] state updates of `self` normalised to `field := expr` / helper calls"""
    out = []
    for bi, si, path, value, s in b.stores():
        if atoms.mentions_param(path, "self"):
            try:
                e = _to(ctx, value)
            except formula.NotAFormula:
                e = render(value)
            out.append(("%s := %s" % (render(path), e), b.guard(bi), bi, s["sp"]))
    for bi, t, tm in b.real_calls():
        n = tm[1]
        if n == "std::ops::AddAssign::add_assign" and render(tm[2][0]) == "self.pnl_realised" and tm[2][1][0] == "call" and \
                mir.short(tm[2][1][1]) == "position::calculate_pnl_realised" and \
                [render(a) for a in tm[2][1][2][:2]] == ["self.side", "self.price_entry_average"]:
            # the body of `update_pnl_realised(qty, price, fee)` (pinned in R4) written out at the call site: the same update
            args = []
            for a in tm[2][1][2][2:]:
                try:
                    args.append(str(sympy.simplify(_to(ctx, a))))
                except formula.NotAFormula:
                    args.append(render(a))
            out.append(("update_pnl_realised(%s)" % ", ".join(args), b.guard(bi), bi, t["sp"]))
        elif n in OPASSIGN and atoms.mentions_param(tm[2][0], "self"):
            try:
                e = OPASSIGN[n](_to(ctx, tm[2][0]), _to(ctx, tm[2][1]))
            except formula.NotAFormula:
                e = render(tm)
            out.append(("%s := %s" % (render(tm[2][0]), sympy.simplify(e) if not isinstance(e, str) else e), b.guard(bi), bi, t["sp"]))
        elif mir.short(n).startswith("Position::update_") and render(tm[2][0]) == "self":
            args = []
            for a in tm[2][1:]:
                try:
                    args.append(str(sympy.simplify(_to(ctx, a))))
                except formula.NotAFormula:
                    args.append(render(a))
            out.append(("%s(%s)" % (mir.short(n).split("::")[-1], ", ".join(args)), b.guard(bi), bi, t["sp"]))
        elif n.endswith("Vec::<T, A>::push") and render(tm[2][0]) == "self.trades":
            out.append(("trades.push(%s)" % render(tm[2][1]), b.guard(bi), bi, t["sp"]))
        elif common.mutates_self(b, t, tm):
            out.append(("call " + render(tm)[:120], b.guard(bi), bi, t["sp"]))
    return out


def _valuation(cell):
    def v(a):
        if a[0] == "is" and render(a[1]) in ("self.side", "trade.side"):
            return cell[render(a[1])] in a[2]
        # the quantity relation decided once with `cmp` and matched as an Ordering (instead of three `<` / `==` / `>` guards)
        if a[0] == "is" and a[1][0] == "call" and a[1][1].rsplit("::", 1)[-1] in ("cmp", "partial_cmp") and len(a[1][2]) == 2:
            l, r = render(a[1][2][0]), render(a[1][2][1])
            names = {"Greater": "gt", "Equal": "eq", "Less": "lt"}
            rel = cell["rel"]
            if (l, r) == ("self.quantity_abs", "Decimal::abs(trade.quantity)"):
                return any(names.get(n) == rel for n in a[2])
            if (l, r) == ("Decimal::abs(trade.quantity)", "self.quantity_abs"):
                flip = {"gt": "lt", "lt": "gt", "eq": "eq"}[rel]
                return any(names.get(n) == flip for n in a[2])
            return None
        c = atoms.atom_cmp(a)
        if c:
            op, l, r = c
            rl, rr = render(l), render(r)
            if {rl, rr} == {"self.instrument", "trade.instrument"} and op in ("eq", "ne"):
                return (op == "eq") == (not cell["mismatch"])
            rel = cell["rel"]  # relation of Q (open quantity) to q (|trade quantity|): gt / eq / lt
            if rl == "self.quantity_abs" and rr == "Decimal::abs(trade.quantity)":
                return {"lt": rel == "lt", "le": rel in ("lt", "eq"), "eq": rel == "eq", "ne": rel != "eq"}[op]
            if rr == "self.quantity_abs" and rl == "Decimal::abs(trade.quantity)":
                return {"lt": rel == "gt", "le": rel in ("gt", "eq"), "eq": rel == "eq", "ne": rel != "eq"}[op]
            if rl == "self.quantity_abs_max" and rr == "self.quantity_abs" and op in ("lt", "le"):
                return cell["newmax"] if op == "lt" else None
            return None
        return None
    return v


def _sset(items):
    return sorted(str(x) for x in items)


def r2(ctx):
    b = ctx.fibody(name="update_from_trade", self_adt=POS, trait="")
    eff = _effects(ctx, b)
    rets = b.expanded_cases(0)
    Q, q, f, p, pnl, fe, fx, t = F("Q"), sympy.Abs(F("tq")), F("f"), F("p"), F("pnl"), F("fe"), F("fx"), F("t")
    # (the private helper that stores the new average is not named by any rule, so it is inlined: whether the average is stored by
    #  a `&mut self` helper or computed by a query and assigned in the arm, the effect is this one store)
    avg = "self.price_entry_average := position::calculate_price_entry_average(self.price_entry_average, self.quantity_abs, trade.price, Decimal::abs(trade.quantity))"
    same = ["trades.push(trade.id)", avg, "self.quantity_abs := %s" % (Q + q),
            "self.pnl_realised := %s" % sympy.simplify(pnl - f), "self.fees_enter.fees := %s" % (f + fe),
            "self.time_exchange_update := t", "update_pnl_unrealised(p)"]
    reduce_ = ["trades.push(trade.id)", "update_pnl_realised(tq, p, f)", "self.quantity_abs := %s" % (Q - q),
               "self.fees_exit.fees := %s" % (f + fx), "self.time_exchange_update := t", "update_pnl_unrealised(p)"]
    close = list(reduce_)
    flip = ["trades.push(trade.id)", "self.fees_exit.fees := %s" % sympy.simplify(fx + f * (Q / q)), "self.time_exchange_update := t",
            "update_pnl_realised(Q, p, %s)" % sympy.simplify(f * (Q / q)), "self.quantity_abs := 0", "update_pnl_unrealised(p)"]
    n = 0
    for sides in (("Buy", "Buy"), ("Sell", "Sell"), ("Buy", "Sell"), ("Sell", "Buy")):
        for rel in ("gt", "eq", "lt"):
            for newmax in ((True, False) if sides[0] == sides[1] else (False,)):
                cell = {"self.side": sides[0], "trade.side": sides[1], "rel": rel, "mismatch": False, "newmax": newmax}
                name = "%s/%s/Q %s q%s" % (sides[0], sides[1], {"gt": ">", "eq": "=", "lt": "<"}[rel], "/newmax" if newmax else "")
                try:
                    got_e = [lab for lab, g, bi, sp in eff if table.eval_guard(g, _valuation(cell))]
                    # (the closed-position record may be built by a `From<Position>` conversion: read it at this call site)
                    got_r = [render(common.resolve_calls(ctx, term, lambda n: "PositionExited" in n and n.endswith("::from")))
                             for g, term, bi in rets if table.eval_guard(g, _valuation(cell))]
                except table.UnknownAtom as ex:
                    ctx.check("Position::update_from_trade:" + name, False,
                              "the fill handling branches on a condition outside {sides, quantity relation} (fail closed)", got=str(ex), key="unknown-atom")
                    continue
                if sides[0] == sides[1]:
                    want_e = same + (["self.quantity_abs_max := Q"] if newmax else [])
                    shape = "keep"
                elif rel == "gt":
                    want_e, shape = reduce_, "keep"
                elif rel == "eq":
                    want_e, shape = close, "close"
                else:
                    want_e, shape = flip, "flip"
                n += 1
                ctx.check("Position::update_from_trade:" + name, _sset(got_e) == _sset(want_e),
                          "state updates of this arm (normalised `field := expr`)", got=_sset(got_e), want=_sset(want_e), key="effects")
                ok = len(got_r) == 1
                if ok:
                    r = got_r[0]
                    if shape == "keep":
                        ok = r == "tuple{0: Option::Some{0: self}, 1: Option::None{}}"
                    elif shape == "close":
                        ok = r.startswith("tuple{0: Option::None{}, 1: Option::Some{0: PositionExited::PositionExited{instrument: self.instrument")
                    else:
                        ok = r.startswith("tuple{0: Option::Some{0: Position::from(Trade::Trade{id: trade.id") and \
                            ", 1: Option::Some{0: PositionExited::PositionExited{instrument: self.instrument" in r
                ctx.check("Position::update_from_trade:" + name, ok,
                          "a closed-position record is emitted exactly when the net quantity reaches or crosses zero (%s)" % shape,
                          got=[x[:160] for x in got_r], key="output")
    ctx.floor("arm cells", n, 14)
    # mismatch: nothing happens
    cell = {"self.side": "Buy", "trade.side": "Buy", "rel": "gt", "mismatch": True, "newmax": False}
    got_e = [lab for lab, g, bi, sp in eff if table.eval_guard(g, _valuation(cell))]
    ctx.check("Position::update_from_trade:instrument-mismatch", not got_e, "a fill for another instrument changes nothing", got=got_e, key="effects")


def r1(ctx):
    b = ctx.fibody(name="update_from_trade", self_adt=POS, trait="")
    push = [(bi, t, tm) for bi, t, tm in b.real_calls() if tm[1].endswith("Vec::<T, A>::push") and render(tm[2][0]) == "self.trades"]
    ok = len(push) == 1 and render(push[0][2][2][1]) == "trade.id"
    ctx.check("Position::update_from_trade", ok, "the fill id is recorded once", got=[render(x[2]) for x in push], key="push")
    if ok:
        g = b.guard(push[0][0])
        okg = len(g) == 1 and len(next(iter(g))) == 1 and atoms.atom_cmp(next(iter(next(iter(g))))) is not None and \
            atoms.atom_cmp(next(iter(next(iter(g)))))[0] == "eq"
        ctx.check("Position::update_from_trade", okg, "on every path except the instrument-mismatch rejection", got=render_guard(g), key="every-path")
    fr = ctx.find(name="from", self_adt=POS, trait="std::convert::From")
    fb = ctx.ibody(fr)
    rt = fb.return_term()
    push = [(bi, t, tm) for bi, t, tm in fb.real_calls() if tm[1].endswith("Vec::<T, A>::push")]
    ctx.check("Position::from(&Trade)", len(push) == 1 and render(push[0][2][2][1]) == "trade.id" and fb.guard(push[0][0]) == frozenset([frozenset()]),
              "a position opened by a fill records that fill's id", got=[render(x[2]) for x in push], key="push")
    f = {k: v for k, v in zip(rt[2], rt[3])} if rt[0] == "agg" else {}
    want = {"instrument": "trade.instrument", "side": "trade.side", "price_entry_average": "trade.price",
            "quantity_abs": "Decimal::abs(trade.quantity)", "quantity_abs_max": "Decimal::abs(trade.quantity)",
            "pnl_unrealised": "rust_decimal::Decimal::ZERO", "pnl_realised": "Neg::neg(trade.fees.fees)", "fees_enter": "trade.fees",
            "time_enter": "trade.time_exchange", "time_exchange_update": "trade.time_exchange"}
    got = {k: render(f[k]) for k in want if k in f}
    ctx.check("Position::from(&Trade)", got == want, "a new position starts at the fill's side/price/|quantity| with realised PnL = -fee",
              got=got, want=want, key="fields")
    ctx.floor("fill-id recordings", 2, 2)


def r3(ctx):
    b = ctx.fibody(name="update_from_trade", self_adt=POS, trait="")
    Q, q, f = F("Q"), sympy.Abs(F("tq")), F("f")
    # flip: synthetic next trade
    nxt = [tm for bi, t, tm in b.real_calls() if tm[1] == ctx.find(name="from", self_adt=POS, trait="std::convert::From")]
    ok = len(nxt) == 1 and nxt[0][2][0][0] == "agg" and nxt[0][2][0][1].endswith("Trade::Trade")
    ctx.check("Position::update_from_trade:flip", ok, "the remainder opens a position from a synthetic fill", got=[render(x)[:120] for x in nxt], key="synthetic")
    if not ok:
        return
    tf = dict(zip(nxt[0][2][0][2], nxt[0][2][0][3]))
    try:
        nq = _to(ctx, tf["quantity"])
        nf = _to(ctx, dict(zip(tf["fees"][2], tf["fees"][3]))["fees"])
        okq = formula.equal(nq, q - Q)
        okf = formula.equal(nf, f * ((q - Q) / q))
    except (formula.NotAFormula, KeyError, IndexError):
        okq = okf = False
        nf = None
    ctx.check("Position::update_from_trade:flip", okq, "remainder quantity = |fill| - open quantity", got=render(tf.get("quantity", ("const", "?", ""))), key="remainder")
    ctx.check("Position::update_from_trade:flip", okf, "the new position's entry fee is the pro-rata share f*(|q|-Q)/|q|", got=str(nf), key="entry-share")
    for k, w in (("id", "trade.id"), ("side", "trade.side"), ("price", "trade.price"), ("instrument", "trade.instrument"), ("time_exchange", "trade.time_exchange")):
        ctx.check("Position::update_from_trade:flip", render(tf.get(k, ("const", "?", ""))) == w, "synthetic fill keeps the fill's " + k,
                  got=render(tf.get(k, ("const", "?", ""))), key="synthetic-" + k)
    # exit share + entry share == fee
    ex = [tm for bi, t, tm in b.real_calls() if tm[1] == "std::ops::AddAssign::add_assign" and render(tm[2][0]) == "self.fees_exit.fees"
          and render(tm[2][1]) != "trade.fees.fees"]
    oks = False
    if len(ex) == 1 and nf is not None:
        try:
            oks = formula.equal(_to(ctx, ex[0][2][1]) + nf, f)
        except formula.NotAFormula:
            pass
    ctx.check("Position::update_from_trade:flip", oks, "the exit share and the new position's entry share sum to the fill's fee",
              got=[render(x[2][1]) for x in ex], key="shares-sum")
    # ordering: shares are computed before the open quantity is zeroed
    zero = [(bi, si) for bi, si, path, value, s in b.stores() if render(path) == "self.quantity_abs" and render(value).endswith("Decimal::ZERO")]
    uses = [bi for bi, t, tm in b.real_calls() if tm[1] in ("std::ops::Div::div", "std::ops::Sub::sub") and "self.quantity_abs" in [render(a) for a in tm[2]]]
    upr = [bi for bi, t, tm in b.real_calls() if mir.short(tm[1]) == "Position::update_pnl_realised" and render(tm[2][1]) == "self.quantity_abs"]
    ok = len(zero) == 1 and bool(uses) and all(b.dominates(u, zero[0][0]) and u != zero[0][0] for u in uses + upr)
    ctx.check("Position::update_from_trade:flip", ok, "the pro-rata shares and the closing PnL use the open quantity before it is set to zero",
              got={"zero": zero, "uses": uses, "realised": upr}, key="order")
    ctx.floor("fee routing checks", 4, 4)


def r4(ctx):
    c = ctx.ibody(ctx.find(path="barter::engine::state::position::calculate_pnl_realised"))
    names = [c.param_name(i) for i in range(1, c.argc + 1)]
    ctx.check("calculate_pnl_realised", names == ["position_side", "price_entry_average", "closed_quantity", "closed_price", "closed_fee"],
              "parameter roles", got=names, key="params")
    e, cq, cp, cf = sympy.symbols("price_entry_average closed_quantity closed_price closed_fee")
    want = {"Buy": sympy.Abs(cq) * cp - sympy.Abs(cq) * e - cf, "Sell": sympy.Abs(cq) * e - sympy.Abs(cq) * cp - cf}
    seen = set()
    for g, term, bi in c.expanded_cases(0):
        side = (common.variant_of(g, "position_side") or {"?"})
        side = next(iter(side)) if len(side) == 1 else "?"
        try:
            ex = formula.to_sympy(ctx.facts, term)
            ok = side in want and formula.equal(ex, want[side])
        except formula.NotAFormula as e2:
            ok, ex = False, str(e2)
        seen.add(side)
        ctx.check("calculate_pnl_realised:" + side, ok, "realised = (+/-)(|q|*close - |q|*entry) - fee", got=str(ex), want=str(want.get(side)), key="formula")
    ctx.check("calculate_pnl_realised", seen == {"Buy", "Sell"}, "one formula per side", got=sorted(seen), key="arms")
    a = ctx.ibody(ctx.find(path="barter::engine::state::position::calculate_price_entry_average"))
    ca, cq2, tp, tq = sympy.symbols("current_price_entry_average current_quantity_abs trade_price trade_quantity_abs")
    main = [(g, t) for g, t, bi in a.expanded_cases(0) if not render(t).endswith("Decimal::ZERO")]
    ok = len(main) == 1
    if ok:
        try:
            ok = formula.equal(formula.to_sympy(ctx.facts, main[0][1]), (ca * cq2 + tp * tq) / (cq2 + tq))
        except formula.NotAFormula:
            ok = False
    ctx.check("calculate_price_entry_average", ok, "volume-weighted average (avg*Q + p*q)/(Q+q)", got=[render(t) for g, t in main], key="formula")
    r = ctx.fibody(name="update_pnl_realised", self_adt=POS, trait="")
    cs = [tm for bi, t, tm in r.real_calls() if tm[1] == "std::ops::AddAssign::add_assign"]
    ok = len(cs) == 1 and render(cs[0][2][0]) == "self.pnl_realised" and render(cs[0][2][1]) == \
        "position::calculate_pnl_realised(self.side, self.price_entry_average, closed_quantity, closed_price, closed_fee)"
    ctx.check("Position::update_pnl_realised", ok, "pnl_realised += calculate_pnl_realised(side, entry, qty, price, fee)", got=[render(x) for x in cs], key="roles")
    # ordering in the increase arm: the average is updated before the quantity grows
    b = ctx.fibody(name="update_from_trade", self_adt=POS, trait="")
    up = [bi for bi, si, path, value, s_ in b.stores() if render(path) == "self.price_entry_average"]
    inc = [bi for bi, t, tm in b.real_calls() if tm[1] == "std::ops::AddAssign::add_assign" and render(tm[2][0]) == "self.quantity_abs"]
    ctx.check("Position::update_from_trade:increase", len(up) == 1 and len(inc) == 1 and b.dominates(up[0], inc[0]) and up[0] != inc[0],
              "the average entry price is recomputed with the OLD quantity (before `quantity_abs += |q|`)", got=(up, inc), key="order")
    ctx.floor("leaf formulas", 3, 3)


def r5(ctx):
    b = ctx.fibody(name="update_from_trade", self_adt=PM, trait="")
    st = [(render(s[2]), render(s[3]), render_guard(b.guard(s[0]))) for s in b.stores()]
    want = [("self.current", "phi(Option::Some{0: Position::from(trade)} | Position::update_from_trade(Option::take(self.current).as:Some.0, trade).0)", "true")]
    ctx.check("PositionManager::update_from_trade", st == want,
              "no position -> open one from the fill; otherwise update it; the result is stored back", got=st, want=want, key="store")
    ctx.check("PositionManager::update_from_trade", render(b.return_term()) ==
              "phi(Option::None{} | Position::update_from_trade(Option::take(self.current).as:Some.0, trade).1)",
              "returns exactly the closed record (if any)", got=render(b.return_term()), key="returns")
    cs = {mir.short(tm[1]): render_guard(b.guard(bi)) for bi, t, tm in b.real_calls()}
    ctx.check("PositionManager::update_from_trade", cs.get("Position::from") == "(Option::take(self.current) is None)" and
              cs.get("Position::update_from_trade") == "(Option::take(self.current) is Some)", "per case", got=cs, key="cases")
    pe = ctx.find(name="from", self_adt="barter::engine::state::position::PositionExited", trait="std::convert::From")
    rt = ctx.ibody(pe).return_term()
    f = {k: render(v) for k, v in zip(rt[2], rt[3])} if rt[0] == "agg" else {}
    want = {"pnl_realised": "value.pnl_realised", "fees_enter": "value.fees_enter", "fees_exit": "value.fees_exit", "trades": "value.trades",
            "quantity_abs_max": "value.quantity_abs_max", "price_entry_average": "value.price_entry_average", "side": "value.side",
            "instrument": "value.instrument"}
    ctx.check("PositionExited::from(Position)", {k: f.get(k) for k in want} == want, "the closed record carries the position's own figures", got=f, key="fields")
    common.position_from_trade(ctx)
    # ... and the record is handed out unchanged by the instrument state (what the engine, the audit and the summary see)
    common.instrument_feeds_own(ctx)
    ctx.floor("plumbing", 3, 3)


RULES = [
    ("R1", "every fill id is recorded (update path, new position, flip)", r1),
    ("R2", "arm table: outputs and normalised state updates per {sides} x {quantity relation}", r2),
    ("R3", "fee routing on a flip: pro-rata shares that sum to the fee, computed before the quantity is zeroed", r3),
    ("R4", "leaf formulas and argument roles; average entry price before the quantity grows", r4),
    ("R5", "PositionManager / PositionExited plumbing", r5),
]
