"""C01 - active-order tracking follows the documented order lifecycle."""
import json
import os

import sympy

from sa import atoms, formula, mir, table, whomay
from sa.mir import render, render_guard
from rules import common, common_idx

EXPLANATION = (
    "Finite decision table (P6): the effect sites of Orders::update_from_order_snapshot / update_from_cancel_response "
    "(VacantEntry::insert, OccupiedEntry::remove, stores to the tracked order's state) are extracted with their "
    "control-dependence guards; every guard atom must belong to the declared abstraction (entry state, report "
    "state, zero remaining quantity, time_exchange order) - anything else fails closed; the extracted formulas are "
    "evaluated on all 5x6x3 (+5x2) abstract cells and compared cell by cell with the lifecycle table written from "
    "the documentation (rules/tables/c01_lifecycle.json). Plus: never-back-in-time guards (R2), keyed single-order "
    "access and no bulk mutators (R3), routing of account events to the addressed instrument's Orders (R4), in-flight "
    "markers (R5), and the helpers to_active / quantity_remaining / open_meta (R6)."
)
NOT_DECIDED = ["FnvHashMap correctness", "user InstrumentData side effects",
               "the fold of the step table over whole histories (trusted induction: the functions read only self.0[cid] and the argument)"]
ASSUMPTIONS = ["std HashMap entry API semantics", "chrono DateTime order is the time order"]
TECHNIQUE = "typestate decision table extracted from MIR control dependence, compared with a frozen lifecycle oracle"

ORDERS = common.ORDERS
OM = common.OM
ACTIVE = common.ACTIVE
HERE = os.path.dirname(os.path.abspath(__file__))

ENTRY = ["V", "OIF", "OP", "CIF0", "CIF1"]
REPORT = ["inactive", "OIF", "Open0", "Open+", "CIFn", "CIFs"]
ORDER = ["older", "equal", "newer"]

TRACKED_STATE = {"OIF": "OpenInFlight", "OP": "Open", "CIF0": "CancelInFlight", "CIF1": "CancelInFlight"}
REPORT_STATE = {"OIF": "OpenInFlight", "Open0": "Open", "Open+": "Open", "CIFn": "CancelInFlight", "CIFs": "CancelInFlight"}


def _n(t):
    return common.norm_map(t)


def _is_tracked_state(t):
    r = render(_n(t))
    return r == "self.0.[key].as:Occupied.0.state" or r == "self.0.[key].as:Some.0.state"


def _is_entry(t):
    return render(_n(t)) == "self.0.[key]"


def _report_root(param):
    return "Order::to_active(%s.0)" % param


class Abstraction:
    """valuation of guard atoms on an abstract cell; returns None for atoms outside the abstraction"""

    def __init__(self, ctx, param):
        self.ctx = ctx
        self.param = param
        self.R = _report_root(param)

    def time_rel(self, c, cell):
        """c = (op,a,b): a tracked time, b reported time"""
        op, a, b = c
        ra, rb = render(_n(a)), render(_n(b))
        tracked_t = ra.startswith("self.0.[key]") and ra.endswith(".time_exchange")
        reported_t = rb.startswith(self.R) and rb.endswith(".time_exchange")
        if not (tracked_t and reported_t):
            # the same comparison stated from the report's side (`!(cur <= upd)` is canonically `upd < cur`)
            if ra.startswith(self.R) and ra.endswith(".time_exchange") and rb.startswith("self.0.[key]") and rb.endswith(".time_exchange"):
                if op == "lt":
                    return cell["order"] == "older"
                if op == "le":
                    return cell["order"] in ("older", "equal")
            return None
        # is the tracked time defined in this cell?  (OP: state.Open.0 ; CIF1: state.CancelInFlight.0.order.Some.0)
        if op == "le":
            return cell["order"] in ("equal", "newer")
        if op == "lt":
            return cell["order"] == "newer"
        return None

    def __call__(self, cell):
        def v(a):
            if a[0] == "is":
                t, names = a[1], a[2]
                r = render(_n(t))
                if _is_entry(t):
                    return ("Vacant" if cell["entry"] == "V" else "Occupied") in names or \
                        ("None" if cell["entry"] == "V" else "Some") in names
                if _is_tracked_state(t):
                    return cell["entry"] != "V" and TRACKED_STATE[cell["entry"]] in names
                if r == "self.0.[key].as:Occupied.0.state.as:CancelInFlight.0.order":
                    if cell["entry"] not in ("CIF0", "CIF1"):
                        return False
                    return ("Some" if cell["entry"] == "CIF1" else "None") in names
                if r == self.R:
                    return ("None" if cell["report"] == "inactive" else "Some") in names
                if r == self.R + ".as:Some.0.state":
                    return cell["report"] != "inactive" and REPORT_STATE[cell["report"]] in names
                if r == self.R + ".as:Some.0.state.as:CancelInFlight.0.order":
                    if cell["report"] not in ("CIFn", "CIFs"):
                        return False
                    return ("Some" if cell["report"] == "CIFs" else "None") in names
                if r == "response.state":
                    return cell["response"] in names
                return None
            if a[0] == "bool":
                t, pol = a[1], a[2]
                if t[0] == "call" and t[1].endswith("Decimal::is_zero"):
                    q = t[2][0]
                    rq = render(q)
                    if rq == "Open::quantity_remaining(%s.as:Some.0.state.as:Open.0, %s.as:Some.0.quantity)" % (self.R, self.R):
                        return (cell["report"] == "Open0") == pol
                    return None
                c = atoms.atom_cmp(a)
                if c:
                    x = self.time_rel(c, cell)
                    return x
                if t[0] == "call" and t[1].endswith("::is_none_or") and t[2][1][0] == "agg":
                    opt = t[2][0]
                    if render(_n(opt)) != "self.0.[key].as:Occupied.0.state.as:CancelInFlight.0.order":
                        return None
                    inner = mir.mk_proj(opt, ("as:Some", "0"))
                    p = atoms.closure_pred(self.ctx.facts, t[2][1], [inner])
                    cc = atoms.cmp_term(p) if p is not None else None
                    if not cc:
                        return None
                    rel = self.time_rel(atoms.canon_cmp(*cc), cell)
                    if rel is None:
                        return None
                    val = (cell["entry"] != "CIF1") or rel
                    return val == pol
            return None
        return v


def _classify_value(ctx, value, R, absn, cell):
    """abstract label of a stored order state, evaluated in `cell`"""
    r = render(_n(value))
    if r == "ActiveOrderState::Open{0: %s.as:Some.0.state.as:Open.0}" % R:
        return "set:Open(upd)"
    if r == "ActiveOrderState::CancelInFlight{0: %s.as:Some.0.state.as:CancelInFlight.0}" % R:
        return "set:CIF(upd)"
    if r == "ActiveOrderState::CancelInFlight{0: CancelInFlight::CancelInFlight{order: Option::Some{0: %s.as:Some.0.state.as:Open.0}}}" % R:
        return "set:CIF(Some upd)"
    if r == "ActiveOrderState::Open{0: self.0.[key].as:Occupied.0.state.as:CancelInFlight.0.order.as:Some.0}":
        return "set:Open(stored)"
    if r == "ActiveOrderState::CancelInFlight{0: CancelInFlight::CancelInFlight{order: Option::Some{0: %s.as:Some.0.state.as:CancelInFlight.0.order.as:Some.0}}}" % R:
        return "set:CIF(Some upd)"
    if r == "ActiveOrderState::CancelInFlight{0: CancelInFlight::CancelInFlight{order: Option::Some{0: self.0.[key].as:Occupied.0.state.as:Open.0}}}":
        return "set:CIF(Some cur)"
    # CIF{order: Some(upd.order.take().filter(pred).unwrap_or_else(|| cur.clone()))}
    v = value
    try:
        assert v[0] == "agg" and v[1].endswith("ActiveOrderState::CancelInFlight")
        v = v[3][0]
        assert v[0] == "agg" and v[1].endswith("CancelInFlight::CancelInFlight")
        v = v[3][0]
        assert v[0] == "agg" and v[1].endswith("Option::Some")
        v = v[3][0]
        assert v[0] == "call" and v[1].endswith("::unwrap_or_else")
        filt, fb = v[2]
        assert filt[0] == "call" and filt[1].endswith("::filter")
        src, pred = filt[2]
        if src[0] == "call" and src[1].endswith("::take"):
            src = src[2][0]
        assert render(src) == R + ".as:Some.0.state.as:CancelInFlight.0.order"
        inner = mir.mk_proj(src, ("as:Some", "0"))
        p = atoms.closure_pred(ctx.facts, pred, [inner])
        cc = atoms.cmp_term(p)
        rel = absn.time_rel(atoms.canon_cmp(*cc), cell)
        assert rel is not None
        fbb, _ = mir.closure_body(ctx.facts, fb)
        fbt = mir.in_closure(ctx.facts, fb, fbb.return_term())
        assert render(_n(fbt)) == "self.0.[key].as:Occupied.0.state.as:Open.0"
        if cell["report"] == "CIFs" and rel:
            return "set:CIF(Some upd)"
        return "set:CIF(Some cur)"
    except (AssertionError, TypeError, IndexError):
        return "set:?" + r[:160]


def _effects(ctx, b, param):
    """[(kind, guard, block, site, value)] effect sites on the tracked-order map"""
    out = []
    for bi, t, tm in b.real_calls():
        n = mir._strip_generics(tm[1])
        if n.endswith("VacantEntry::insert"):
            out.append(("insert", b.guard(bi), bi, t["sp"], tm[2][1]))
        elif n.endswith("OccupiedEntry::remove") or n.endswith("OccupiedEntry::remove_entry"):
            out.append(("remove", b.guard(bi), bi, t["sp"], None))
        elif n.endswith(("HashMap::insert", "HashMap::remove")) and render(tm[2][0]) == "self.0":
            out.append((n.rsplit("::", 1)[-1] + "(map)", b.guard(bi), bi, t["sp"], tm[2][-1]))
    for bi, si, path, value, s in b.stores():
        if atoms.mentions_param(_n(path), "self"):
            # a stored value chosen by an earlier branch (`let o = match ..; state = CIF(Some(o))`, the inlined form of
            # `.filter(..).unwrap_or_else(..)`) is one effect per choice, each under its own guard
            for g2, v2 in b.expand_term(b.guard(bi), value):
                out.append(("store:" + render(_n(path)), g2, bi, s["sp"], v2))
    return out


def _load_oracle():
    with open(os.path.join(HERE, "tables", "c01_lifecycle.json")) as fh:
        return json.load(fh)


def r1(ctx):
    oracle = _load_oracle()
    # ---------------------------------------------------------------- snapshots
    b = ctx.fibody(name="update_from_order_snapshot", self_adt=ORDERS, trait=OM)
    eff = _effects(ctx, b, "snapshot")
    ctx.floor("effect sites in update_from_order_snapshot", len(eff), 8)
    absn = Abstraction(ctx, "snapshot")
    R = absn.R
    unknown = set()
    n_cells = 0
    for cell in table.cells({"entry": ENTRY, "report": REPORT, "order": ORDER}):
        # the time relation only exists when both sides carry an exchange time
        both = cell["entry"] in ("OP", "CIF1") and cell["report"] in ("Open0", "Open+", "CIFs")
        if not both and cell["order"] != "equal":
            continue
        n_cells += 1
        got = []
        sites = []
        failed = False
        for kind, g, bi, sp, value in eff:
            try:
                active = table.eval_guard(g, absn(cell))
            except table.UnknownAtom as ex:
                unknown.add((sp, str(ex)))
                failed = True
                continue
            if not active:
                continue
            sites.append(sp)
            if kind == "insert":
                ok = render(value) == R + ".as:Some.0"
                got.append("insert" if ok else "insert:?" + render(value)[:80])
            elif kind == "remove":
                got.append("remove")
            elif kind == "store:self.0.[key].as:Occupied.0.state":
                got.append(_classify_value(ctx, value, R, absn, cell))
            else:
                got.append(kind)
        key = "%s/%s" % (cell["entry"], cell["report"])
        want = oracle["snapshot"][key]
        if isinstance(want, dict):
            want = want["not_older" if cell["order"] != "older" else "older"]
        want_l = [] if want == "-" else [want]
        name = "%s x %s%s" % (cell["entry"], cell["report"], (" (%s)" % cell["order"]) if both else "")
        if failed:
            continue
        ctx.check("snapshot:" + name, sorted(got) == want_l,
                  "lifecycle step for tracked=%s, report=%s must be `%s`" % (cell["entry"], cell["report"], want),
                  sites=sites, got=got or ["-"], want=want_l or ["-"], key="cell")
    for sp, a in sorted(unknown):
        ctx.check("snapshot:abstraction", False,
                  "an effect on the tracked-order map depends on a condition outside the declared abstraction "
                  "(entry state, report state, zero remaining, time order) - fail closed", sites=[sp], got=a, key=a[:80])
    ctx.extra["c01_cells_snapshot"] = n_cells
    # ---------------------------------------------------------------- cancel responses
    b = ctx.fibody(name="update_from_cancel_response", self_adt=ORDERS, trait=OM)
    eff = _effects(ctx, b, "response")
    ctx.floor("effect sites in update_from_cancel_response", len(eff), 4)
    absn = Abstraction(ctx, "response")
    for cell in table.cells({"entry": ENTRY, "response": ["Ok", "Err"]}):
        cell["report"] = "n/a"
        cell["order"] = "equal"
        got, sites = [], []
        try:
            for kind, g, bi, sp, value in eff:
                if table.eval_guard(g, absn(cell)):
                    sites.append(sp)
                    if kind == "remove":
                        got.append("remove")
                    elif kind == "store:self.0.[key].as:Occupied.0.state":
                        got.append(_classify_value(ctx, value, "-", absn, cell))
                    else:
                        got.append(kind)
        except table.UnknownAtom as ex:
            ctx.check("cancel-response:abstraction", False, "condition outside the declared abstraction (fail closed)",
                      got=str(ex), key=str(ex)[:80])
            continue
        want = oracle["cancel_response"]["%s/%s" % (cell["entry"], cell["response"])]
        want_l = [] if want == "-" else [want]
        ctx.check("cancel-response:%s x %s" % (cell["entry"], cell["response"]), sorted(got) == want_l,
                  "lifecycle step for tracked=%s, cancel response=%s must be `%s`" % (cell["entry"], cell["response"], want),
                  sites=sites, got=got or ["-"], want=want_l or ["-"], key="cell")


def r2(ctx):
    n = common.order_time_guards(ctx)
    ctx.floor("stores of exchange order data over a state that can carry exchange data", n, 3)


KEYED = ("::entry", "::get", "::get_mut", "::insert", "::remove", "::contains_key", "::remove_entry")
BULK = ("::values_mut", "::iter_mut", "::retain", "::clear", "::drain", "::extend", "::into_values", "::into_iter")


def r3(ctx):
    fns = [("update_from_order_snapshot", OM, "snapshot.0.key.cid"), ("update_from_cancel_response", OM, "response.key.cid"),
           ("record_in_flight_cancel", "barter::engine::state::order::in_flight_recorder::InFlightRequestRecorder", "request.key.cid"),
           ("record_in_flight_open", "barter::engine::state::order::in_flight_recorder::InFlightRequestRecorder", "request.key.cid")]
    n = 0
    for name, tr, key in fns:
        b = ctx.fibody(name=name, self_adt=ORDERS, trait=tr)
        for bi, t, tm in b.real_calls():
            nme = mir._strip_generics(tm[1])
            if tm[2] and render(tm[2][0]) == "self.0":
                if nme.endswith(KEYED):
                    n += 1
                    ctx.check("Orders::%s" % name, len(tm[2]) > 1 and render(tm[2][1]) == key,
                              "the tracked-order map is accessed only under the client order id of the very report/request "
                              "being processed", sites=[t["sp"]], got=render(tm)[:160], want=key, key="keyed")
                else:
                    ctx.check("Orders::%s" % name, False, "unexpected whole-map operation on the tracked orders",
                              sites=[t["sp"]], got=render(tm)[:160], key="bulk:" + nme.rsplit("::", 1)[-1])
    ctx.floor("keyed accesses to the tracked-order map", n, 4)
    # no bulk mutator of Orders.0 anywhere in library code
    bad = []
    for d in common_idx.lib_bodies(ctx):
        rec = ctx.facts.bodies[d]
        for blk in rec["blocks"]:
            t = blk["term"]
            if not (t and t["t"] == "call" and "def" in t["f"] and t["args"]):
                continue
            nme = mir._strip_generics(t["f"]["def"])
            if not nme.endswith(BULK):
                continue
            bb = ctx.ibody(d)
            if common_idx.arg_field(bb, t["args"][0]) == (ORDERS, "0"):
                # shared iteration (`values()`, `iter()`) is fine; BULK lists mutators / consumers only
                if nme.endswith(("::into_iter", "::into_values")):
                    ty = bb.locals[(t["args"][0].get("m") or t["args"][0].get("c"))["l"]]["ty"]
                    if ty.startswith("&") and not ty.startswith("&mut"):
                        continue
                bad.append((mir.short(d), nme.rsplit("::", 1)[-1], t["sp"]))
    ctx.check("Orders.0", not bad, "no library code mutates several tracked orders at once", sites=[x[2] for x in bad], got=bad,
              key="bulk-mutators")
    ws = [w for w in whomay.writers_of(ctx.facts, ORDERS, "0") if not common.is_test(ctx.facts, w[0]) and w[2] in ("borrow_mut", "assign")]
    owners = sorted(set(mir.short(whomay.owner_fn(w[0])) for w in ws if not common.is_derived(ctx.facts, whomay.owner_fn(w[0]))))
    allowed = {"Orders::update_from_order_snapshot", "Orders::update_from_cancel_response", "Orders::record_in_flight_cancel",
               "Orders::record_in_flight_open"}
    ctx.check("Orders.0", set(owners) <= allowed, "only the lifecycle functions take the tracked-order map mutably",
              got=owners, want=sorted(allowed), key="mut-borrowers")
    ctx.floor("mutable borrowers of Orders.0", len(owners), 4)


def r4(ctx):
    b = ctx.fibody(name="update_from_account", self_adt="barter::engine::state::EngineState", trait="")
    calls = b.real_calls()
    want = {
        "OrderSnapshot": ("InstrumentState::update_from_order_snapshot",
                          ["InstrumentStates::instrument_index_mut(self.instruments, event.kind.as:OrderSnapshot.0.0.key.instrument)",
                           "Snapshot::Snapshot{0: event.kind.as:OrderSnapshot.0.0}"]),
        "OrderCancelled": ("InstrumentState::update_from_cancel_response",
                           ["InstrumentStates::instrument_index_mut(self.instruments, event.kind.as:OrderCancelled.0.key.instrument)",
                            "event.kind.as:OrderCancelled.0"]),
    }
    n = 0
    # the full-snapshot arm may apply an instrument's order reports itself (the body of update_from_account_snapshot written out):
    # those calls belong to the Snapshot arm, checked below
    snap_el = "Iterator::next(event.kind.as:Snapshot.0.instruments).as:Some.0"
    inl = [(bi, t, tm) for bi, t, tm in calls if mir.short(tm[1]) == "InstrumentState::update_from_order_snapshot" and snap_el in render(tm[2][1])]
    for variant, (callee, args) in want.items():
        cs = [(bi, t, tm) for bi, t, tm in calls if mir.short(tm[1]) == callee and (bi, t, tm) not in inl]
        ok = len(cs) == 1 and [render(a) for a in cs[0][2][2]] == args
        if ok:
            g = b.guard(cs[0][0])
            ok = len(g) == 1 and next(iter(g)) == frozenset(a for a in next(iter(g)) if a[0] == "is" and render(a[1]) == "event.kind"
                                                              and a[2] == frozenset([variant])) and len(next(iter(g))) == 1
        n += 1
        ctx.check("EngineState::update_from_account:" + variant, ok,
                  "the event is applied, on every path of its arm, to the Orders of the instrument named by the event's own key",
                  sites=[c[1]["sp"] for c in cs], got=[render(c[2]) for c in cs], want=args, key="route")
    cs = [(bi, t, tm) for bi, t, tm in calls if mir.short(tm[1]) == "InstrumentState::update_from_account_snapshot"]
    ok = len(cs) == 1
    if ok:
        a0, a1 = cs[0][2][2]
        ok = render(a0) == "InstrumentStates::instrument_index_mut(self.instruments, %s.instrument)" % render(a1) and \
            "event.kind.as:Snapshot.0.instruments" in render(a1)
    if not cs and len(inl) == 1:
        # written out: for every order report of the instrument snapshot, unconditionally, to the state selected by that snapshot's key
        a0, a1 = inl[0][2][2]
        g = b.guard(inl[0][0])
        ok = render(a0) == "InstrumentStates::instrument_index_mut(self.instruments, %s.instrument)" % snap_el and \
            render(a1) == "Snapshot::Snapshot{0: Iterator::next(%s.orders).as:Some.0}" % snap_el and \
            common.loop_body_always_continues(b, a1[3][0][1] if a1[0] == "agg" and a1[3] and a1[3][0][0] == "proj" else ("const", "?", "")) and \
            len(g) == 1 and all(a[0] == "is" and (render(a[1]) == "event.kind" or render(a[1]).startswith("Iterator::next(")) for a in next(iter(g)))
        cs = inl
    n += 1
    ctx.check("EngineState::update_from_account:Snapshot", ok,
              "each instrument snapshot is applied to the instrument state selected by that snapshot's own instrument key",
              sites=[c[1]["sp"] for c in cs], got=[render(c[2])[:300] for c in cs], key="route")
    ctx.floor("order-related arms", n, 3)
    IS = "barter::engine::state::instrument::InstrumentState"
    for fn, callee in (("update_from_order_snapshot", "Orders::update_from_order_snapshot"),
                       ("update_from_cancel_response", "Orders::update_from_cancel_response")):
        ib = ctx.fibody(name=fn, self_adt=IS, trait="")
        cs = [(bi, t, tm) for bi, t, tm in ib.real_calls()]
        ok = len(cs) == 1 and mir.short(cs[0][2][1]) == callee and render(cs[0][2][2][0]) == "self.orders" and \
            cs[0][2][2][1][0] == "param" and ib.guard(cs[0][0]) == frozenset([frozenset()])
        ctx.check("InstrumentState::" + fn, ok, "forwards the report unchanged to this instrument's own Orders",
                  got=[render(c[2]) for c in cs], key="forward")
    sd = ctx.find(name="update_from_account_snapshot", self_adt=IS, trait="")
    vs = [v for v in common.elementwise_views(ctx, sd) if v["source"] == "snapshot.orders"]
    ok = len(vs) == 1 and vs[0]["complete"] and vs[0]["calls"] == [("InstrumentState::update_from_order_snapshot(self, Snapshot::Snapshot{0: $x})", "true")]
    ctx.check("InstrumentState::update_from_account_snapshot", ok,
              "EVERY order report of the snapshot (active or not, unfiltered, unmodified) goes through update_from_order_snapshot",
              got=[(v["source"], v["calls"]) for v in common.elementwise_views(ctx, sd)], key="each-order")


def r5(ctx):
    IFR = "barter::engine::state::order::in_flight_recorder::InFlightRequestRecorder"
    b = ctx.fibody(name="record_in_flight_open", self_adt=ORDERS, trait=IFR)
    ins = [(bi, t, tm) for bi, t, tm in b.real_calls() if mir._strip_generics(tm[1]).endswith("HashMap::insert")]
    ok = len(ins) == 1 and b.guard(ins[0][0]) == frozenset([frozenset()])
    ctx.check("Orders::record_in_flight_open", ok, "inserts an order under the request's cid on every path",
              got=[render(x[2])[:200] for x in ins], key="insert")
    if ok:
        v = ins[0][2][2][2]
        # `Order::from(request)` is a constructor-like function and is inlined by the provenance engine
        if v[0] == "call" and v[1] in ctx.facts.bodies:
            fb = ctx.ibody(v[1])
            v = mir.subst_params(fb.return_term(), v[2])
        f = dict(zip(v[2], v[3])) if v[0] == "agg" else {}
        ctx.check("Orders::record_in_flight_open",
                  render(f.get("state", ("const", "?", ""))) == "ActiveOrderState::OpenInFlight{0: OpenInFlight::OpenInFlight{}}"
                  and render(f.get("key", ("const", "?", ""))) == "request.key"
                  and render(f.get("quantity", ("const", "?", ""))) == "request.state.quantity",
                  "a sent open request is tracked as OpenInFlight with the request's own key and quantity",
                  sites=[ins[0][1]["sp"]], got={k: render(x) for k, x in f.items()} or render(v)[:200], key="open-in-flight")
    b = ctx.fibody(name="record_in_flight_cancel", self_adt=ORDERS, trait=IFR)
    st = b.stores()
    ok = len(st) == 1 and render(_n(st[0][2])) == "self.0.[key].as:Some.0.state"
    if ok:
        v = render(_n(st[0][3]))
        ok = v == "ActiveOrderState::CancelInFlight{0: CancelInFlight::CancelInFlight{order: ActiveOrderState::open_meta(self.0.[key].as:Some.0.state)}}"
        g = b.guard(st[0][0])
        ok = ok and len(g) == 1 and all(a[0] == "is" and _is_entry(a[1]) and a[2] == frozenset(["Some"]) for a in next(iter(g)))
    ctx.check("Orders::record_in_flight_cancel", ok,
              "a sent cancel marks the tracked order CancelInFlight keeping its last exchange-confirmed open data; untracked: nothing",
              sites=[s[4]["sp"] for s in st], got=[(render(_n(s[2])), render(_n(s[3]))[:200], render_guard(b.guard(s[0]))[:200]) for s in st],
              key="cancel-in-flight")
    mut = [mir.short(tm[1]) for bi, t, tm in b.real_calls() if common.mutates_self(b, t, tm)]
    ctx.check("Orders::record_in_flight_cancel", set(mut) <= {"HashMap::get_mut"}, "no other mutation", got=mut, key="no-other")
    # the batch forms (what the Engine calls with `&output.sent`): every request of the batch reaches the single-request recorder
    for many, one in (("record_in_flight_cancels", "record_in_flight_cancel"), ("record_in_flight_opens", "record_in_flight_open")):
        ds = [d for d in ctx.find(name=many, trait=IFR, allow_many=True)]
        okall = bool(ds)
        got = []
        for d in ds:
            vs = common.elementwise_views(ctx, d)
            got.append([(v["source"], v["calls"]) for v in vs])
            okall = okall and len(vs) == 1 and vs[0]["complete"] and vs[0]["source"] == "requests" and \
                [c for c in vs[0]["calls"]] == [("InFlightRequestRecorder::%s(self, $x)" % one, "true")]
        ctx.check("InFlightRequestRecorder::" + many, okall, "every sent request of the batch is recorded, one by one", got=got, key="each")


def r6(ctx):
    # open_meta
    b = ctx.fibody(name="open_meta", self_adt=ACTIVE, trait="")
    got = {}
    for g, term, bi in b.expanded_cases(0):
        for conj in g:
            for a in conj:
                if a[0] == "is" and render(a[1]) == "self":
                    for nme in a[2]:
                        got[nme] = render(term)
    want = {"OpenInFlight": "Option::None{}", "Open": "Option::Some{0: self.as:Open.0}", "CancelInFlight": "self.as:CancelInFlight.0.order"}
    ctx.check("ActiveOrderState::open_meta", got == want, "last exchange-confirmed open data per state", got=got, want=want, key="table")
    # quantity_remaining
    q = ctx.fibody(name="quantity_remaining", self_adt="barter_execution::order::state::Open", trait="")
    try:
        e = formula.to_sympy(ctx.facts, q.return_term())
        ok = formula.equal(e, sympy.Symbol("initial_quantity") - sympy.Symbol("self.filled_quantity"))
        got_s = str(e)
    except formula.NotAFormula as ex:
        ok, got_s = False, str(ex)
    ctx.check("Open::quantity_remaining", ok, "remaining = initial quantity - filled quantity", got=got_s, key="formula")
    # to_active
    t = ctx.fibody(name="to_active", self_adt="barter_execution::order::Order", trait="")
    res = {}
    for g, term, bi in t.expanded_cases(0):
        # (`?` read through: `self.state.as_active()?` and `let Active(s) = &self.state else { return None }` are the same table)
        g = common.untry_guard(t, g)
        term = common.drop_never(common.untry(t, term))
        if "<never>" in render(term):
            continue        # a case that reads the payload of a variant the value does not have: infeasible
        for conj in g:
            for a in conj:
                if a[0] == "is" and render(a[1]) == "self.state":
                    for nme in a[2]:
                        res[nme] = render(term)
    ok = res.get("Inactive") == "Option::None{}" and res.get("Active", "").startswith("Option::Some{0: Order::Order{") and \
        "state: self.state.as:Active.0" in res.get("Active", "") and "quantity: self.quantity" in res.get("Active", "") and \
        "key: self.key" in res.get("Active", "")
    ctx.check("Order::to_active", ok, "an active report converts to itself; cancelled / filled / failed / expired reports to None",
              got=res, key="table")


RULES = [
    ("R1", "lifecycle step table: extracted effect guards == documented lifecycle, cell by cell", r1),
    ("R2", "never back in time: exchange-confirmed order data replaced only under tracked.time <= reported.time", r2),
    ("R3", "one order at a time: keyed accesses by the report's own cid; no bulk mutators of the tracked map", r3),
    ("R4", "routing: account events reach the Orders of the instrument named by the event", r4),
    ("R5", "in-flight markers: OpenInFlight on sent open, CancelInFlight(open_meta) on sent cancel", r5),
    ("R6", "helpers: open_meta, quantity_remaining, to_active tables", r6),
]
