"""C07 - every execution request is answered exactly once (response or timeout)."""
from sa import atoms, mir, table
from sa.mir import render, render_guard
from rules import common

EXPLANATION = (
    "Path and provenance rules on the pre-transform MIR of the ExecutionManager::run coroutine: (R1) the Cancel / Open "
    "intake arms push RequestFuture::new(client.{cancel,open}_order(indexer.order_request(&request)), request_timeout, "
    "that same request) into the in-flight set of the matching kind, on every non-panicking path; (R2) each response arm "
    "is fed by the matching set (select branch i <-> set i), turns Ok into process_*_response and Err (timeout) into "
    "process_*_timeout of the original request, and passes exactly one response_tx.send(event) before the loop "
    "continues - except the catalogued `continue` taken when the client's answer cannot be indexed; (R3) RequestFuture "
    "wraps the client future in tokio::time::timeout with the given duration and maps elapse to Err(original request); "
    "(R4) timeout / response events are attributed to the request's own exchange, instrument and client order id."
)
NOT_DECIDED = ["'exactly one, never both' and 'eventually' under every schedule (tokio::time::Timeout / FuturesUnordered semantics)",
               "clients answering about keys they were never given (catalogued exception in R2)"]
ASSUMPTIONS = ["tokio::select! yields Out::_i for its i-th branch", "tokio::time::timeout semantics", "FuturesUnordered yields each pushed future once"]
TECHNIQUE = "must-pass-through / provenance rules on pre-transform coroutine MIR"

EM = "barter::execution::manager::ExecutionManager"
RF = "barter::execution::request::RequestFuture"


def _run(ctx):
    ds = [d for d in ctx.facts.bodies if d.startswith(EM + "::") and d.endswith("::run::{closure#0}")]
    if len(ds) != 1:
        raise Exception("ExecutionManager::run coroutine not found: %r" % ds)
    return ctx.ibody(ds[0])


def _reach_avoiding(b, frm, targets, avoid):
    hit, seen = set(), set()
    stack = [y for _, y in b.succ[frm]]
    while stack:
        x = stack.pop()
        if x in seen:
            continue
        seen.add(x)
        if x in targets:
            hit.add(x)
            continue
        if x == mir.EXIT or x in avoid:
            continue
        stack.extend(y for _, y in b.succ[x])
    return hit


def _sets(b):
    """in-flight sets: site of FuturesUnordered::new() -> kind, from the pushes"""
    out = {}
    for bi, t, tm in b.real_calls():
        if mir.short(tm[1]) == "FuturesUnordered::push":
            recv, fut = tm[2]
            kind = None
            for s in mir.subterms(fut):
                if s[0] == "call" and s[1].endswith(("ExecutionClient::cancel_order", "ExecutionClient::open_order")):
                    kind = s[1].rsplit("::", 1)[-1].split("_")[0]
            out.setdefault(recv, []).append((kind, bi, t, tm))
    return out


def r1(ctx):
    b = _run(ctx)
    sets = _sets(b)
    ctx.check("ExecutionManager::run", len(sets) == 2 and sorted(k for v in sets.values() for k, _, _, _ in v) == ["cancel", "open"],
              "two in-flight sets, one push site each (cancel / open)", got={render(k): [x[0] for x in v] for k, v in sets.items()}, key="sets")
    n = 0
    for recv, pushes in sets.items():
        for kind, bi, t, tm in pushes:
            n += 1
            fut = tm[2][1]
            ok = fut[0] == "call" and mir.short(fut[1]) == "RequestFuture::new" and len(fut[2]) == 3
            ctx.check("ExecutionManager::run:%s" % kind, ok, "a RequestFuture is pushed", got=render(fut)[:120], key="future")
            if not ok:
                continue
            client_fut, timeout, req = fut[2]
            variant = "Cancel" if kind == "cancel" else "Open"
            ctx.check("ExecutionManager::run:%s" % kind, render(timeout) == "^self.request_timeout", "with the manager's configured timeout",
                      got=render(timeout), key="timeout")
            ctx.check("ExecutionManager::run:%s" % kind, render(req).endswith(".as:_0.0.as:Some.0.as:%s.0" % variant),
                      "carrying the request just received from the engine (the %s payload of the request stream item)" % variant,
                      got=render(req)[-80:], key="request")
            tr = [s for s in mir.subterms(client_fut) if s[0] == "call" and mir.short(s[1]) == "AccountEventIndexer::order_request"]
            okc = client_fut[0] == "call" and client_fut[1].endswith("ExecutionClient::%s_order" % kind) and render(client_fut[2][0]) == "^self.client" \
                and len(tr) == 1 and tr[0][2][1] == req and render(tr[0][2][0]) == "^self.indexer"
            ctx.check("ExecutionManager::run:%s" % kind, okc,
                      "the client call made is client.%s_order(indexer.order_request(&that same request))" % kind, sites=[t["sp"]],
                      got=render(client_fut)[:160], key="client-call")
            # every (non-panicking) path from the arm's entry back to the loop head passes the push: an accepted request is
            # never silently skipped
            heads = {x for x in b.reachable if b.blocks[x]["term"]["t"] == "false_unwind"}
            starts = []
            for x in b.reachable:
                tt = b.blocks[x]["term"]
                if tt["t"] == "switch":
                    for lab, y in b.succ[x]:
                        a = b.edge_atom(x, lab)
                        if a[0] == "is" and a[2] == frozenset([variant]) and render(a[1]).endswith(".as:_0.0.as:Some.0"):
                            starts.append(y)
            skipped = set()
            for y in starts:
                if y == bi:
                    continue
                seen, stack = set(), [y]
                while stack:
                    z = stack.pop()
                    if z in seen or z == bi:
                        continue
                    seen.add(z)
                    if z in heads or z == mir.EXIT:
                        skipped.add(z)
                        continue
                    stack.extend(w for _, w in b.succ[z])
            ctx.check("ExecutionManager::run:%s" % kind, bool(starts) and not skipped,
                      "every accepted %s request is tracked (no path from the intake arm back to the loop skips the push)" % kind,
                      sites=[t["sp"]], got=sorted(skipped), key="never-skipped")
            # every non-panicking path of the arm reaches the push: guard = request is Some(variant)
            g = b.guard(bi)
            arm = [a for conj in g for a in conj if a[0] == "is" and a[2] == frozenset([variant])]
            ctx.check("ExecutionManager::run:%s" % kind, len(g) >= 1 and all(any(a[0] == "is" and a[2] == frozenset([variant]) for a in conj) for conj in g)
                      and not any(a[0] == "bool" for conj in g for a in conj if "order_request" in render(a[1])),
                      "pushed whenever such a request arrives (no conditional skip)", got=render_guard(g)[-200:], key="always")
    ctx.floor("intake arms", n, 2)


def r2(ctx):
    b = _run(ctx)
    sets = _sets(b)
    site_kind = {recv[3]: v[0][0] for recv, v in sets.items() if recv[0] == "call"}
    # select tuple: field i <-> set
    tup = None
    for blk in b.blocks:
        for s in blk["stmts"]:
            rv = s.get("rv")
            if rv and rv["r"] == "agg" and rv["kind"]["k"] == "tuple" and len(rv["ops"]) == 3:
                t = b.rvalue_term(rv)
                if render(t[3][0]) == "StreamExt::next(^self.request_stream)":
                    tup = t
    ctx.check("ExecutionManager::run:select", tup is not None, "the select polls (request stream, next cancel response, next open response)",
              key="tuple")
    branch_kind = {}
    if tup is not None:
        for i in (1, 2):
            ks = set()
            for s in mir.subterms(tup[3][i]):
                if s[0] == "call" and mir.short(s[1]) == "StreamExt::select_next_some" and s[2][0][0] == "call":
                    ks.add(site_kind.get(s[2][0][3]))
            branch_kind[i] = ks
        ctx.check("ExecutionManager::run:select", branch_kind == {1: {"cancel"}, 2: {"open"}},
                  "select branch 1 awaits the cancel set, branch 2 the open set", got={k: sorted(map(str, v)) for k, v in branch_kind.items()}, key="branches")
    heads = [x for x in b.reachable if b.blocks[x]["term"]["t"] == "false_unwind"]
    calls = b.real_calls()
    n = 0
    for kind, idx in (("cancel", 1), ("open", 2)):
        resp = [(bi, t, tm) for bi, t, tm in calls if mir.short(tm[1]) == "ExecutionManager::process_%s_response" % kind]
        tout = [(bi, t, tm) for bi, t, tm in calls if mir.short(tm[1]) == "ExecutionManager::process_%s_timeout" % kind]
        ok = len(resp) == 1 and len(tout) == 1
        ctx.check("ExecutionManager::run:%s-response" % kind, ok, "one response site and one timeout site", got=(len(resp), len(tout)), key="shape")
        if not ok:
            continue
        pay = ".as:Ready.0.as:_%d.0" % idx
        ctx.check("ExecutionManager::run:%s-response" % kind, render(resp[0][2][2][1]).endswith(pay + ".as:Ok.0") and
                  render(tout[0][2][2][0]).endswith(pay + ".as:Err.0"),
                  "a completion of the %s set: Ok(client response) -> process_%s_response, Err(original request) -> process_%s_timeout" % (kind, kind, kind),
                  got=(render(resp[0][2][2][1])[-40:], render(tout[0][2][2][0])[-40:]), key="dispatch")
        sends = [(bi, t, tm) for bi, t, tm in calls if mir.short(tm[1]) == "UnboundedTx::send" and
                 any(x == tout[0][2] for x in mir.subterms(tm[2][1]))]
        ok = len(sends) == 1
        ctx.check("ExecutionManager::run:%s-response" % kind, ok, "one send site for the arm's event", got=len(sends), key="one-send")
        if not ok:
            continue
        n += 1
        sb, st, stm = sends[0]
        ev = stm[2][1]
        alts = set(ev[1]) if ev[0] == "phi" else {ev}
        want = {tout[0][2], mir.mk_proj(resp[0][2], ("as:Ok", "0"))}
        ctx.check("ExecutionManager::run:%s-response" % kind, alts == want and render(stm[2][0]) == "^self.response_tx",
                  "the event sent is the timeout event or the indexed client response (nothing else)", sites=[st["sp"]],
                  got=sorted(render(a)[-60:] for a in alts), key="event")
        # escape edges: inside the arm (entered on select branch idx), every decision edge that leaves the blocks from which the
        # send is still reachable and gets back to the loop head must be the catalogued one: process_*_response(..) is Err
        hs = set(heads)
        entry = []
        for x in b.reachable:
            if b.blocks[x]["term"]["t"] == "switch":
                for lab, y in b.succ[x]:
                    a = b.edge_atom(x, lab)
                    if a[0] == "is" and a[2] == frozenset(["_%d" % idx]) and render(a[1]).endswith(".as:Ready.0"):
                        entry.append(y)
        region, stack = set(), list(entry)
        while stack:
            x = stack.pop()
            if x in region or x in hs or x == mir.EXIT:
                continue
            region.add(x)
            stack.extend(y for _, y in b.succ[x])
        can_send = {x for x in region if x == sb or sb in _reach_avoiding(b, x, {sb}, hs)}
        escapes = []
        for x in sorted(can_send - {sb}):
            for lab, y in b.succ[x]:
                if y in can_send:
                    continue
                if y in hs or y == mir.EXIT or _reach_avoiding(b, y, hs | {mir.EXIT}, set()):
                    a = b.edge_atom(x, lab)
                    escapes.append((x, a))
        # an escape decided on a value assigned in several arms (`let r = match c { Ok(x) => f(x), Err(q) => Ok(timeout(q)) };
        # match r { Err(_) => continue, .. }`) is resolved to the arms that can actually produce it (is-phi lifting)
        bad = []
        for x, a in escapes:
            if not a:
                bad.append("unconditional@bb%d" % x)
                continue
            lifted = b._lift_is_phi(a, set()) or b._lift_bool_phi(a, set())
            conjs = lifted if lifted is not None else [frozenset([a])]
            for conj in conjs:
                if not any(q[0] == "is" and q[1] == resp[0][2] and q[2] == frozenset(["Err"]) for q in conj):
                    bad.append(" && ".join(sorted(mir.render_atom(q)[-90:] for q in conj)) or "unconditional@bb%d" % x)
        ctx.check("ExecutionManager::run:%s-response" % kind, len(entry) == 1 and sb in region and not bad,
                  "inside the arm, the only decision that skips the send is `process_%s_response(..) is Err`: a timed-out request "
                  "always produces its event and a client response is dropped only when it cannot be indexed" % kind, got=bad[:4], key="escape-edges")
        # exactly once: the send is not in an inner loop of its own
        ctx.check("ExecutionManager::run:%s-response" % kind, sb not in _reach_avoiding(b, sb, {sb}, set(heads)),
                  "the event is sent once per completion", key="once")
    ctx.floor("response arms", n, 2)


def r3(ctx):
    nb = ctx.fibody(name="new", self_adt=RF, trait="")
    rt = nb.return_term()
    f = {k: render(v) for k, v in zip(rt[2], rt[3])} if rt[0] == "agg" else {}
    ctx.check("RequestFuture::new", f == {"request": "request", "response_future": "time::timeout(timeout, future)"},
              "keeps the request and wraps the client future in tokio::time::timeout(timeout, future)", got=f, key="fields")
    pb = ctx.ibody(ctx.find(name="poll", self_adt=RF))
    polls = [tm for bi, t, tm in pb.real_calls() if tm[1].endswith("Future::poll")]
    ok = len(polls) == 1 and "response_future" in render(polls[0][2][0])
    ctx.check("RequestFuture::poll", ok, "polls only the timeout-wrapped client future", got=[render(x)[:120] for x in polls], key="polls")
    tab = common.case_table(pb)
    p = "Future::poll(self.response_future, cx)"
    want = {"(%s is Pending)" % p: ["Poll::Pending{}"],
            "(%s is Ready && %s.as:Ready.0 is Ok)" % (p, p): ["Poll::Ready{0: Result::Ok{0: %s.as:Ready.0.as:Ok.0}}" % p],
            "(%s is Ready && %s.as:Ready.0 is Err)" % (p, p): ["Poll::Ready{0: Result::Err{0: self.request}}"]}
    ctx.check("RequestFuture::poll", tab == want,
              "Pending stays pending; Ready(Ok(response)) passes through; Ready(Err(elapsed)) becomes Err(the original request)",
              got=tab, want=want, key="maps-elapsed")


def r4(ctx):
    ct = ctx.fibody(name="process_cancel_timeout", self_adt=EM, trait="")
    ev_norm = lambda body, t: common.resolve_event_ctor(ctx, body, t)   # noqa: E731  (`AccountEvent::new(e, p)` = the literal it builds)
    r = render(ev_norm(ct, ct.return_term()))
    ctx.check("ExecutionManager::process_cancel_timeout",
              r == "Event::Item{0: AccountEvent::AccountEvent{exchange: order.key.exchange, kind: AccountEventKind::OrderCancelled{0: "
              "OrderEvent::OrderEvent{key: order.key, state: Result::Err{0: OrderError::Connectivity{0: ConnectivityError::Timeout{}}}}}}}",
              "a cancel timeout is reported against the request's own key and exchange as a Timeout failure", got=r, key="event")
    ot = ctx.fibody(name="process_open_timeout", self_adt=EM, trait="")
    ot_rt = ev_norm(ot, ot.return_term())
    r = render(ot_rt)
    ev = common.agg_fields(ot_rt, "AccountEvent::AccountEvent")
    of = common.agg_fields(ot_rt, "order::Order::Order")
    ok = (ev.get("exchange") == "order.key.exchange" and ev.get("kind", "").startswith("AccountEventKind::OrderSnapshot{") and
          {k: of.get(k) for k in ("key", "side", "price", "quantity", "kind", "time_in_force")} ==
          {"key": "order.key", "side": "order.state.side", "price": "order.state.price", "quantity": "order.state.quantity",
           "kind": "order.state.kind", "time_in_force": "order.state.time_in_force"} and
          "OrderError::Connectivity{0: ConnectivityError::Timeout{}}" in of.get("state", ""))
    ctx.check("ExecutionManager::process_open_timeout", ok,
              "an open timeout is reported as a failed (inactive, Timeout) snapshot of the request's own order", got=r[:400], key="event")
    # decided at the call site in `run` (callee parameters replaced by the actual arguments), so it does not matter whether the
    # indexer reaches the helper through `self` or as an explicit argument
    rb = _run(ctx)
    sites = [tm for bi, t, tm in rb.real_calls() if mir.short(tm[1]) == "ExecutionManager::process_cancel_response"]
    oks = []
    arg = None
    if len(sites) == 1:
        arg = render(sites[0][2][-1])
        oks = [render(t) for g, t in (common.at_call(ctx, sites[0], norm=ev_norm) or []) if render(t).startswith("Result::Ok")]
    idx = "Try::branch(AccountEventIndexer::order_response_cancel(^self.indexer, %s)).as:Continue.0" % arg
    # the indexer's `order_response_cancel` written out at the call site (its own table is C04's): the key indexed by order_key,
    # the state passed on (Ok) or its error indexed by order_error (Err), attributed to the indexed key's exchange
    key_ = "Try::branch(AccountEventIndexer::order_key(^self.indexer, %s.key)).as:Continue.0" % arg
    shape = "Result::Ok{0: Event::Item{0: AccountEvent::AccountEvent{exchange: %s.exchange, kind: AccountEventKind::OrderCancelled{0: OrderEvent::OrderEvent{key: %s, state: %%s}}}}}" % (key_, key_)
    inlined_form = sorted(oks) == sorted([shape % ("Result::Ok{0: %s.state.as:Ok.0}" % arg),
                                          shape % ("Result::Err{0: Try::branch(AccountEventIndexer::order_error(^self.indexer, %s.state.as:Err.0)).as:Continue.0}" % arg)])
    ctx.check("ExecutionManager::process_cancel_response", len(sites) == 1 and inlined_form or len(sites) == 1 and oks == [
        "Result::Ok{0: Event::Item{0: AccountEvent::AccountEvent{exchange: %s.key.exchange, kind: AccountEventKind::OrderCancelled{0: %s}}}}" % (idx, idx)],
        "the client's cancel response is indexed and attributed to its own key's exchange", got=oks, key="event")
    # (again at the call site in `run`, with the response written `order` and the manager `self`, so that a helper taking
    #  `&self` and one taking the indexer as an explicit argument read the same)
    osites = [tm for bi, t, tm in rb.real_calls() if mir.short(tm[1]) == "ExecutionManager::process_open_response"]
    if len(osites) != 1:
        raise Exception("expected one call of process_open_response in run, got %d" % len(osites))
    oarg = osites[0][2][-1]

    def named(t):
        t = common.rename_term(t, oarg, ("param", 2, "order"))
        return common.rename_term(t, ("upvar", "self"), ("param", 1, "self"))
    ocases = [(frozenset(frozenset((a[0], named(a[1])) + tuple(a[2:]) for a in conj) for conj in g), named(t), None)
              for g, t in (common.at_call(ctx, osites[0], norm=ev_norm) or [])]
    cases = [c for c in ocases if render(c[1]).startswith("Result::Ok")]
    tab = {}
    for g, term, bi in cases:
        for conj in g:
            key = []
            for a in sorted(conj, key=repr):
                if a[0] == "is" and render(a[1]) == "order.state":
                    key.append("state=" + "|".join(sorted(a[2])))
                elif a[0] == "bool" and a[1][0] == "call" and a[1][1].endswith("Decimal::is_zero") and \
                        render(a[1][2][0]) == "Open::quantity_remaining(order.state.as:Ok.0, order.quantity)":
                    key.append("zero=%s" % a[2])
                elif a[0] == "is" and a[1][0] == "call" and a[1][1].endswith("Try::branch"):
                    continue
                else:
                    key.append("?" + mir.render_atom(a)[:60])
            st = [s for s in mir.subterms(term) if s[0] == "agg" and s[1].endswith("order::Order::Order")]
            sf = dict(zip(st[0][2], st[0][3])) if st else {}
            tab[",".join(sorted(key))] = render(sf.get("state", ("const", "?", "")))
    want = {"state=Ok,zero=True": "OrderState::fully_filled()", "state=Ok,zero=False": "OrderState::active(order.state.as:Ok.0)",
            "state=Err": "OrderState::inactive(Try::branch(AccountEventIndexer::order_error(self.indexer, order.state.as:Err.0)).as:Continue.0)"}
    norm = {k: v for k, v in tab.items()}
    ok = set(norm) == set(want) and all(want[k] == norm[k] or (k == "state=Ok,zero=True" and "FullyFilled" in norm[k]) or
                                        (k == "state=Ok,zero=False" and "order.state.as:Ok.0" in norm[k] and "Active" in norm[k]) or
                                        (k == "state=Err" and "order_error(self.indexer, order.state.as:Err.0)" in norm[k]) for k in want)
    ctx.check("ExecutionManager::process_open_response", ok,
              "Ok(open) with nothing remaining -> fully filled; Ok(open) -> active; Err -> inactive(error)", got=norm, want=want, key="table")
    r = [render(t) for g, t, bi in ocases if render(t).startswith("Result::Ok")]
    key = "Try::branch(AccountEventIndexer::order_key(self.indexer, order.key)).as:Continue.0"
    ctx.check("ExecutionManager::process_open_response", len(r) >= 1 and all(("exchange: %s.exchange" % key) in x and ("key: %s, side: order.side, price: order.price, quantity: order.quantity" % key) in x for x in r),
              "the response is attributed to the indexed key of the responded order itself", got=[x[:300] for x in r], key="attribution")


def r5(ctx):
    from rules import C04, C03
    C04.r4(ctx)
    C04.r5(ctx)
    C04.r6(ctx)
    # a request reaches the manager of ITS exchange: the engine-side link table is addressed by the exchange's own index (= C03.R7)
    C03.r7(ctx)


def _coroutine_of(ctx, term, suffix):
    """closure / coroutine aggregates inside `term` whose definition ends with `suffix`, with their capture map"""
    out = []
    for s_ in mir.subterms(term):
        if s_[0] == "agg" and s_[1].startswith("closure:") and mir._strip_generics(s_[1]).endswith(suffix):
            cb, caps = mir.closure_body(ctx.facts, s_)
            out.append((s_, cb, caps))
    return out


def r6(ctx):
    """wiring: the manager's answers reach the engine and the timeout is the configured one.  The event a request yields travels
    response_tx -> (merged account stream returned by `init`) -> forward_to(the engine's merged channel); an adaptor on that path that
    drops or holds events, or a timeout that is not the caller's, breaks "exactly one, the response if within the timeout" although
    `run` itself is untouched."""
    ds = [d for d in ctx.facts.bodies if mir._strip_generics(d) == EM + "::init::{closure#0}"]
    if len(ds) != 1:
        raise Exception("ExecutionManager::init coroutine not found: %r" % ds)
    ib = ctx.ibody(ds[0])
    chans = [tm for bi, t, tm in ib.real_calls() if mir.short(tm[1]) == "channel::mpsc_unbounded"]
    oks = [t for g, t, bi in ib.expanded_cases(0) if render(t).startswith("Result::Ok")]
    ok = len(chans) == 1 and len(oks) >= 1
    got = []
    for t in oks:
        tup = t[3][0] if t[0] == "agg" and len(t[3]) == 1 else None
        if not (tup and tup[0] == "agg" and len(tup[3]) == 2):
            ok = False
            got.append(render(t)[:200])
            continue
        mgr = common.resolve_calls(ctx, tup[3][0], lambda c: mir._strip_generics(c) == EM + "::new")
        f = dict(zip(mgr[2], mgr[3])) if mgr[0] == "agg" else {}
        stream = tup[3][1]
        g_ = {"request_timeout": render(f.get("request_timeout", ("const", "?", ""))), "response_tx": render(f.get("response_tx", ("const", "?", ""))),
              "request_stream": render(f.get("request_stream", ("const", "?", ""))),
              "stream": render(stream)[:160]}
        got.append(g_)
        ok = ok and g_["request_timeout"] == "^request_timeout" and g_["request_stream"] == "^request_stream" and \
            g_["response_tx"] == "channel::mpsc_unbounded().0" and stream[0] == "call" and mir.short(stream[1]) == "merge::merge" and \
            render(stream[2][0]) == "UnboundedRx::into_stream(channel::mpsc_unbounded().1)"
    ctx.check("ExecutionManager::init", ok,
              "the manager is built with the caller's request stream and timeout and the sender of ONE fresh channel; the stream handed back is "
              "merge(receiver of that channel, account stream) itself - no adaptor after the merge that could drop, hold or reorder a response",
              got=got[:2], key="response-path")
    EB = "barter::execution::builder::ExecutionBuilder"
    ab = ctx.fibody(name="add_execution", self_adt=EB, trait="")
    pushes = [tm for bi, t, tm in ab.real_calls() if mir.short(tm[1]) == "Vec::push" and render(tm[2][0]) == "self.execution_init_futures"]
    inits = [x for tm in pushes for x in _coroutine_of(ctx, tm, "ExecutionManager::init::{closure#0}")]
    ok = len(pushes) == 1 and len(inits) == 1
    got = None
    if ok:
        caps = inits[0][2]
        got = {k: render(v)[:120] for k, v in caps.items() if k in ("request_timeout", "request_stream")}
        ins = [tm for bi, t, tm in ab.real_calls() if mir._strip_generics(tm[1]).endswith("HashMap::insert") and render(tm[2][0]) == "self.execution_txs"]
        ok = got == {"request_timeout": "request_timeout", "request_stream": "UnboundedRx::into_stream(channel::mpsc_unbounded().1)"} and \
            len(ins) == 1 and render(ins[0][2][1]) == "exchange" and render(mir.mk_proj(ins[0][2][2], ("1",))) == "channel::mpsc_unbounded().0" and \
            len([1 for bi, t, tm in ab.real_calls() if mir.short(tm[1]) == "channel::mpsc_unbounded"]) == 1
    ctx.check("ExecutionBuilder::add_execution", ok,
              "the manager is initialised with the caller's own request timeout, unmodified, and with the receiving end of the request channel "
              "whose sender is registered for this exchange", got=got, key="timeout-and-requests")
    fwd = [x for tm in pushes for x in _coroutine_of(ctx, tm, "add_execution::{closure#0}")]
    ok = len(fwd) == 1
    got = None
    if ok:
        # (inlined view: `result.map(|(manager, stream)| ..)` is already part of the outer closure's body)
        rt = mir.in_closure(ctx.facts, fwd[0][0], fwd[0][1].return_term())
        got = render(rt)[:300]
        runs = _coroutine_of(ctx, rt, "ExecutionManager::run::{closure#0}")
        fw = [s_ for s_ in mir.subterms(rt) if s_[0] == "call" and mir.short(s_[1]) == "ReconnectingStream::forward_to"]
        # `X` = the initialisation result: the argument of the mapping closure, or the awaited init future of an async block
        ok = len(runs) == 1 and len(runs[0][0][3]) == 1 and len(fw) == 1 and len(fw[0][2]) == 2
        if ok:
            mgr, strm = render(runs[0][0][3][0]), render(fw[0][2][0])
            x = mgr[:-len(".as:Ok.0.0")] if mgr.endswith(".as:Ok.0.0") else None
            is_init = x == "$1" or (x is not None and bool(_coroutine_of(ctx, mir.mk_proj(runs[0][0][3][0][1], ()) if runs[0][0][3][0][0] == "proj" else runs[0][0][3][0],
                                                                         "ExecutionManager::init::{closure#0}")))
            ok = x is not None and is_init and strm == x + ".as:Ok.0.1" and render(fw[0][2][1]) == "self.merged_channel.tx"
    ctx.check("ExecutionBuilder::add_execution", ok,
              "the two futures run the initialised manager itself and forward ITS stream, as it is, to the engine's merged account channel",
              got=got, key="forwards-all")
    lb = ctx.fibody(name="add_live", self_adt=EB, trait="")
    cs = [tm for bi, t, tm in lb.real_calls() if mir.short(tm[1]) == "ExecutionBuilder::add_execution"]
    ctx.check("ExecutionBuilder::add_live", len(cs) == 1 and render(cs[0][2][-1]) == "request_timeout" and lb.guard(
        [bi for bi, t, tm in lb.real_calls() if tm == cs[0]][0]) == frozenset([frozenset()]),
        "the live manager gets exactly the timeout its caller configured", got=[render(c[2][-1]) for c in cs], key="timeout")
    common.channel_passthrough(ctx)
    ctx.floor("wiring", len(oks) + len(inits) + len(fwd) + len(cs), 4)


RULES = [
    ("R1", "intake: every Cancel/Open request is pushed as RequestFuture(client call of its translation, timeout, that request)", r1),
    ("R2", "each completion yields exactly one sent event (response or timeout), per matching set; catalogued exception only", r2),
    ("R3", "RequestFuture: tokio timeout wrapper; elapse -> Err(original request)", r3),
    ("R4", "attribution of timeout / response events to the request's own exchange, instrument, cid", r4),
    ("R5", "attribution depends on the indexer: keyed inverse tables, role-preserving translation, own exchange only (C04.R4-R6)", r5),
    ("R6", "wiring: responses travel response_tx -> merge -> forward_to unfiltered; the timeout is the configured one", r6),
]
