"""C04 - engine indices and exchange names translate both ways without mix-ups."""
from sa import atoms, mir, whomay
from sa.mir import render
from rules import common, common_idx

EXPLANATION = (
    "Index-space discipline decided on MIR: (IDX.R1) every positional access (get_index / slice index) whose index "
    "derives from an InstrumentIndex/AssetIndex/ExchangeIndex must be on a table proven aligned with "
    "IndexedInstruments for that index kind; (IDX.R2) a table is aligned iff its reviewed constructor fills it from "
    "the right index space through order- and length-preserving adapters only and nothing shifts it afterwards - "
    "per-exchange (filter_map'd) tables are therefore never positional; (R4) name->index and index->name tables "
    "of ExecutionInstrumentMap derive from the same (index,name) pairs; (R5) role-preserving translation in "
    "AccountEventIndexer and in ExecutionManager::run; (R6) only the map's own exchange translates."
)
NOT_DECIDED = ["behaviour of exchange clients", "string contents of names"]
ASSUMPTIONS = ["indexmap get_index(i) returns the i-th inserted entry; HashMap/IndexMap::get is a keyed lookup",
               "InstrumentNameInternal is unique across exchanges (documented precondition, not enforced; see C11 and DESIGN 11.10)"]
TECHNIQUE = "index-space discipline: positional-use vs aligned-table analysis over MIR provenance; role tables"

EIM = "barter_execution::map::ExecutionInstrumentMap"
AEI = "barter_execution::indexer::AccountEventIndexer"


def r1(ctx):
    common_idx.idx_r1(ctx)


def r2(ctx):
    common_idx.idx_r2(ctx)


def r4(ctx):
    new = ctx.fibody(name="new", self_adt=EIM, trait="")
    rt = new.return_term()
    ok = rt[0] == "agg" and rt[1].endswith("ExecutionInstrumentMap::ExecutionInstrumentMap")
    ctx.check("ExecutionInstrumentMap::new", ok, "returns a struct literal", got=render(rt)[:100], key="shape")
    if not ok:
        return
    f = dict(zip(rt[2], rt[3]))
    for names_f, table_f, param in (("asset_names", "assets", "assets"), ("instrument_names", "instruments", "instruments")):
        nm = f.get(names_f)
        tb = f.get(table_f)
        # name -> index map: collect(map(iter(param), |(k, v)| (v.clone(), *k)))
        okn = False
        got = render(nm) if nm else None
        if nm and nm[0] == "call":
            names, root = common_idx._chain(nm)
            sn = [mir.short(x) for x in names]
            if "Iterator::map" in sn and render(root) == param:
                m = nm
                while m[0] == "call" and not m[1].endswith("Iterator::map"):
                    m = m[2][0]
                cb, _ = mir.closure_body(ctx.facts, m[2][1])
                got = (sn, render(root), render(cb.return_term()))
                okn = render(cb.return_term()) == "tuple{0: $1.1, 1: $1.0}" and all(
                    mir._strip_generics(x).endswith(common_idx.ORDER_PRESERVING) for x in names)
        ctx.check("ExecutionInstrumentMap::new:" + names_f, okn,
                  "name->index map = the (index,name) pairs of `%s`, swapped" % param, got=got, key="inverse")
        # index -> name table derives from the same parameter (by value, or into_values / iter chain)
        names, root = common_idx._chain(tb) if tb else ([], ("const", "?", ""))
        okt = render(root) == param and all(mir._strip_generics(x).endswith(common_idx.ORDER_PRESERVING) for x in names)
        ctx.check("ExecutionInstrumentMap::new:" + table_f, okt,
                  "index->name table is built from the same `%s` pairs" % param,
                  got={"adapters": [mir.short(x) for x in names], "root": render(root)}, key="same-source")
    # keyed lookups
    for fn, fld in (("find_asset_index", "asset_names"), ("find_instrument_index", "instrument_names")):
        b = ctx.fibody(name=fn, self_adt=EIM, trait="")
        gets = [(bi, t, tm) for bi, t, tm in b.real_calls() if mir._strip_generics(tm[1]).endswith("HashMap::get")]
        ok = len(gets) == 1 and render(gets[0][2][2][0]) == "self." + fld and gets[0][2][2][1][0] == "param"
        ctx.check("ExecutionInstrumentMap::" + fn, ok, "keyed lookup of the given name in self.%s" % fld,
                  got=[render(g[2]) for g in gets], key="keyed")
    for fn, fld, kind in (("find_asset_name_exchange", "assets", "Asset"), ("find_instrument_name_exchange", "instruments", "Instrument")):
        b = ctx.fibody(name=fn, self_adt=EIM, trait="")
        look = [(bi, t, tm) for bi, t, tm in b.real_calls()
                if mir._strip_generics(tm[1]).endswith(("::get", "::get_index", "::get_full", "::get_key_value", "::find", "::find_map"))]
        ctx.check("ExecutionInstrumentMap::" + fn, len(look) == 1 and render(look[0][2][2][0]).startswith("self."),
                  "a single lookup in the map's own tables", got=[render(x[2]) for x in look], key="lookup")
        # by key, never by position (positional use on this unaligned table is reported by IDX.R1)
        pos = [x for x in look if mir._strip_generics(x[2][1]).endswith("::get_index")]
        ctx.check("ExecutionInstrumentMap::" + fn, not pos,
                  "index->name translation is a keyed lookup (the per-exchange table is not aligned with global positions)",
                  sites=[x[1]["sp"] for x in pos], got=[render(x[2]) for x in pos], key="keyed")


def _role(name):
    n = name.lower()
    if "exchange" in n and "name_exchange" not in n:
        return "exchange"
    if "instrument" in n:
        return "instrument"
    if "asset" in n or "balance" in n:
        return "asset"
    return None


FIND_ROLE = {"find_exchange_index": "exchange", "find_exchange_id": "exchange", "find_instrument_index": "instrument",
             "find_instrument_name_exchange": "instrument", "find_asset_index": "asset", "find_asset_name_exchange": "asset"}


def _last_named(term):
    if term[0] == "proj":
        for e in reversed(term[2]):
            if e.startswith("as:"):
                return e[3:]
            if not e.isdigit() and not e.startswith("["):
                return e
        return _last_named(term[1])
    if term[0] == "param":
        return term[2]
    if term[0] == "cparam":
        return None
    return None


def _direct_find(term):
    t = term
    while True:
        if t[0] == "proj":
            t = t[1]
        elif t[0] == "call" and t[1].endswith("Try::branch"):
            t = t[2][0]
        else:
            break
    if t[0] == "call" and t[1].startswith(EIM) and t[1].split("::")[-1] in FIND_ROLE:
        return [t]
    return []


def r5(ctx):
    fns = [d for d in ctx.facts.bodies if ctx.facts.bodies[d].get("impl_self_adt") == AEI and not ctx.facts.bodies[d].get("impl_trait")
           and ctx.facts.bodies[d]["kind"] == "assoc_fn"]
    closures = [d for d in ctx.facts.bodies if any(d.startswith(f + "::{closure#") for f in fns)]
    n_calls = 0
    n_fields = 0
    for d in sorted(fns + closures):
        b = ctx.ibody(d)
        name = mir.short(whomay.owner_fn(d))
        for bi, t, tm in b.real_calls():
            fn = tm[1].split("::")[-1]
            if tm[1].startswith(EIM) and fn in FIND_ROLE:
                n_calls += 1
                arg = tm[2][1]
                ln = _last_named(arg)
                ctx.check("%s:%s" % (name, fn), ln is not None and _role(ln) == FIND_ROLE[fn],
                          "%s must be given the %s field of the item being translated" % (fn, FIND_ROLE[fn]),
                          sites=[t["sp"]], got=render(arg), key="arg-role")
        # destination roles + carry-over of same-named fields
        for blk in b.blocks:
            if blk["cleanup"] or blk["i"] not in b.reachable:
                continue
            for s in blk["stmts"]:
                rv = s.get("rv")
                if not (rv and rv["r"] == "agg" and rv["kind"]["k"] == "adt"):
                    continue
                if s.get("exp") and s["exp"].startswith("m:"):
                    continue
                k = rv["kind"]
                if k["adt"].startswith(("std::", "core::", "alloc::")):
                    continue
                for fld, op in zip(k["fields"], rv["ops"]):
                    term = b.operand_term(op)
                    finds = _direct_find(term)
                    dest = fld if not fld.isdigit() else k["variant"]
                    if finds:
                        n_fields += 1
                        ctx.check("%s:%s::%s.%s" % (name, mir.short(k["adt"]).split("::")[-1], k["variant"], fld),
                                  _role(dest) == FIND_ROLE[finds[0][1].split("::")[-1]],
                                  "a translated %s is stored in the %s slot" % (FIND_ROLE[finds[0][1].split("::")[-1]], FIND_ROLE[finds[0][1].split("::")[-1]]),
                                  sites=[s["sp"]], got=render(term)[:160], key="dest-role")
                    elif term[0] == "proj" and not fld.isdigit():
                        src = term[2][-1]
                        if not src.isdigit() and not src.startswith(("as:", "[")):
                            n_fields += 1
                            ctx.check("%s:%s.%s" % (name, mir.short(k["adt"]).split("::")[-1], fld), src == fld,
                                      "untranslated fields are carried over into the field of the same name",
                                      sites=[s["sp"]], got="%s <- %s" % (fld, render(term)), key="carry-over")
    ctx.floor("find_* call sites in AccountEventIndexer", n_calls, 12)
    ctx.floor("role-checked destination fields", n_fields, 30)
    # the request handed to the client is the translation of the request just received
    runs = [d for d in ctx.facts.bodies if d.startswith("barter::execution::manager::ExecutionManager::") and d.endswith("::run::{closure#0}")]
    if not runs:
        raise Exception("ExecutionManager::run coroutine not found")
    b = ctx.ibody(runs[0])
    n = 0
    for bi, t, tm in b.real_calls():
        if tm[1].endswith(("ExecutionClient::open_order", "ExecutionClient::cancel_order")):
            n += 1
            req = tm[2][1]
            tr = [x for x in mir.subterms(req) if x[0] == "call" and mir.short(x[1]) == "AccountEventIndexer::order_request"]
            ok = len(tr) >= 1 and render(tr[0][2][0]) == "^self.indexer"
            ctx.check("ExecutionManager::run:%s" % tm[1].split("::")[-1], ok,
                      "the client is called with indexer.order_request(request) of the manager's own indexer",
                      sites=[t["sp"]], got=render(req)[:200], key="translated")
    ctx.floor("client calls in ExecutionManager::run", n, 2)


def _strip0(r):
    # a derived PartialEq on an index newtype is inlined to a comparison of the inner `.0`
    return r[:-2] if r.endswith(".0") else r


def r6(ctx):
    g = ctx.find(path="barter_execution::map::generate_execution_instrument_map")
    b = ctx.ibody(g)
    n = 0
    want = {"instruments.assets": ([("filter", ["eq($x.value.exchange, exchange)"]), ("map", "tuple{0: $x.key, 1: $x.value.asset.name_exchange}")], "collect"),
            "instruments.instruments": ([("filter", ["eq($x.value.exchange.value, exchange)"]), ("map", "tuple{0: $x.key, 1: $x.value.name_exchange}")], "collect")}
    seen = {}
    for bi, t, tm in b.real_calls():
        if not tm[1].endswith("Iterator::collect"):
            continue
        src, stages, sink = common.pipeline(ctx, tm)
        which = render(common.strip_iter(src))
        if which in want:
            seen[which] = (stages, sink)
            n += 1
            ctx.check("generate_execution_instrument_map:" + which.split(".")[-1], (stages, sink) == want[which],
                      "keeps exactly the entries of the requested exchange, as (global index, exchange name) pairs (pipeline normal form: "
                      "filter on the entry's own exchange, map to its own key and name)", sites=[t["sp"]], got=(stages, sink), want=want[which], key="filter")
    ctx.floor("per-exchange filters", n, 2)
    for fn, cmp_f, ret_f in (("find_exchange_id", "key", "value"), ("find_exchange_index", "value", "key")):
        fb = ctx.fibody(name=fn, self_adt=EIM, trait="")
        oks = [(g_, term) for g_, term, bi in fb.expanded_cases(0) if term[0] == "agg" and term[1].endswith("Result::Ok")]
        ok = len(oks) == 1 and render(oks[0][1][3][0]) == "self.exchange." + ret_f
        if ok:
            gg = oks[0][0]
            ok = len(gg) == 1 and any(atoms.atom_cmp(a) and atoms.atom_cmp(a)[0] == "eq" and
                                      {_strip0(render(atoms.atom_cmp(a)[1])), _strip0(render(atoms.atom_cmp(a)[2]))} == {"self.exchange." + cmp_f, "exchange"}
                                      for a in next(iter(gg)))
        ctx.check("ExecutionInstrumentMap::" + fn, ok, "translates only the map's own exchange", key="own-exchange")


def r7(ctx):
    """engine side: every account event is applied to the asset / instrument state selected by the event's own key"""
    b = ctx.fibody(name="update_from_account", self_adt="barter::engine::state::EngineState", trait="")
    n = 0
    for bi, t, tm in b.real_calls():
        s = mir.short(tm[1])
        if s in ("AssetStates::asset_index_mut", "InstrumentStates::instrument_index_mut"):
            n += 1
            key = render(tm[2][1])
            want_tail = ".asset" if s.startswith("AssetStates") else ".instrument"
            okk = "event.kind.as:" in key and key.endswith(want_tail) and render(tm[2][0]) == ("self.assets" if s.startswith("AssetStates") else "self.instruments")
            # the state selected is then updated with the payload that carries that key
            users = [(bj, t2, tm2) for bj, t2, tm2 in b.real_calls() if tm2[2] and tm2[2][0] == tm or (tm2[2] and tm2[2][0][0] == "proj" and tm2[2][0][1] == tm)]
            payload = key[:-len(want_tail)]
            for strip in (".key", ):
                if payload.endswith(strip):
                    payload = payload[:-len(strip)]
            oku = bool(users) and all(any(payload in render(a) or render(a) == "event" for a in u[2][2][1:]) for u in users)
            ctx.check("EngineState::update_from_account:%s(%s)" % (s.split("::")[-1], key[key.index("event.kind.") + len("event.kind."):][:50] if "event.kind." in key else key[:50]), okk and oku,
                      "the state is selected by the key carried by the very payload that is then applied to it",
                      sites=[t["sp"]], got={"key": key, "applied": [render(u[2])[:120] for u in users]}, key="routing")
    ctx.floor("keyed state selections in update_from_account", n, 6)
    ai = ctx.fibody(name="asset_index_mut", self_adt="barter::engine::state::asset::AssetStates", trait="")
    ii = ctx.fibody(name="instrument_index_mut", self_adt="barter::engine::state::instrument::InstrumentStates", trait="")
    for nm, fb in (("AssetStates::asset_index_mut", ai), ("InstrumentStates::instrument_index_mut", ii)):
        look = [render(tm) for bi, t, tm in fb.real_calls() if mir._strip_generics(tm[1]).endswith("::get_index_mut")]
        ctx.check(nm, look == ["IndexMap::get_index_mut(self.0, key.0)"], "positional lookup by the given index", got=look, key="lookup")


def r3(ctx):
    # the round trip index -> name -> index needs every instrument / asset to have exactly one index: builder discipline (shared with C11)
    common_idx.idx_r3(ctx)


RULES = [
    ("IDX.R3", "builder: sort -> dedup -> enumerate; key = position (one index per distinct entity)", r3),
    ("R7", "engine routing: account events select asset / instrument state by their own key", r7),
    ("IDX.R1", "positional use of a global index only on tables aligned with IndexedInstruments", r1),
    ("IDX.R2", "aligned tables: reviewed constructors, order/length-preserving fill chain, never shifted", r2),
    ("R4", "ExecutionInstrumentMap: name->index and index->name tables are inverse views of the same pairs; keyed lookups", r4),
    ("R5", "role-preserving translation in AccountEventIndexer; ExecutionManager::run translates the received request", r5),
    ("R6", "only indices/names of the map's own exchange translate", r6),
    ("IDX.R9", "IndexedInstruments lookups: first match over the full vector; key <-> value inverses", common_idx.idx_r9),
    ("IDX.R10", "add_instrument registers the exchange, the instrument and every asset it refers to", common_idx.idx_r10),
    ("IDX.R11", "key translation is role-preserving: each rebuilt field comes from the same field of the source", common_idx.idx_r11),
    ("IDX.R12", "by-name state tables are keyed by the indexed entity's own name", common_idx.idx_r12),
    ("IDX.R13", "execution-link table: each indexed exchange gets the transmitter registered under its own id (keyed lookup)", common_idx.idx_r13),
]
