"""C17 - running dataset statistics equal the statistics of the whole dataset (claimed in part)."""
import sympy

from sa import atoms, formula, mir
from sa.mir import render, render_guard
from rules import common

EXPLANATION = (
    "Only the structural necessary conditions of the running-statistics identity are decided: (R1) the three Welford "
    "leaf recurrences are the documented ones (sympy-normalised: mean' = mean + (x - mean)/n, M' = M + (x - mean)(x - mean'), "
    "population variance = M/n with 0 below one sample); (R2) DataSetSummary::update increments the count and the sum "
    "unconditionally, reads the previous mean BEFORE storing the new one, computes the new mean with the already "
    "incremented count and hands (previous mean, new mean, value, count) to the dispersion in those roles; (R3) "
    "Dispersion::update feeds the recurrence with its own previous M and derives variance from the NEW M and the "
    "standard deviation from the NEW variance (ordering by dominance); (R4) the Range update table (first value seeds "
    "both bounds, later values only widen them) and range = high - low.  The numeric identity itself (equality with "
    "batch statistics for every sequence, order independence, rounding, non-negativity) is NOT decided - it is a "
    "statement about run-time decimal values."
)
NOT_DECIDED = ["equality of count / sum / mean / variance / std-dev / range with the batch values over arbitrary sequences",
               "order independence and non-negativity up to rounding", "decimal rounding behaviour"]
ASSUMPTIONS = ["rust_decimal arithmetic", "the algebraic induction from the recurrences to the batch formulas (textbook Welford)"]
TECHNIQUE = "leaf-formula comparison (sympy) + ordering (dominance / statement order) + update table"

DS = "barter::statistic::summary::dataset::DataSetSummary"
DISP = "barter::statistic::summary::dataset::dispersion::Dispersion"
RNG = "barter::statistic::summary::dataset::dispersion::Range"
W = "barter::statistic::algorithm::welford_online::"


def _before(b, a, c):
    """program point a=(block, stmt index or None for terminator) is executed before point c on every path"""
    (ab, ai), (cb, ci) = a, c
    if ab == cb:
        if ai is None:
            return False
        return ci is None or ai < ci
    return b.dominates(ab, cb)


def r1(ctx):
    m = ctx.ibody(ctx.find(path=W + "calculate_mean"))
    aa = [(bi, t, tm) for bi, t, tm in m.real_calls() if tm[1] == "std::ops::AddAssign::add_assign"]
    ok = len(aa) == 1 and render(aa[0][2][2][0]) == "prev_mean" and render(m.return_term()) == "prev_mean"
    if ok:
        try:
            pm, x, n = sympy.symbols("prev_mean next_value count")
            ok = formula.equal(formula.to_sympy(ctx.facts, aa[0][2][2][1]), (x - pm) / n)
        except formula.NotAFormula:
            ok = False
    ctx.check("welford_online::calculate_mean", ok, "mean' = mean + (x - mean) / n", got=[render(x[2]) for x in aa], key="formula")
    r = ctx.ibody(ctx.find(path=W + "calculate_recurrence_relation_m"))
    try:
        pm_, pmean, x, nm = sympy.symbols("prev_m prev_mean new_value new_mean")
        ok = formula.equal(formula.to_sympy(ctx.facts, r.return_term()), pm_ + (x - pmean) * (x - nm))
    except formula.NotAFormula:
        ok = False
    ctx.check("welford_online::calculate_recurrence_relation_m", ok, "M' = M + (x - mean)(x - mean')", got=render(r.return_term()), key="formula")
    v = ctx.ibody(ctx.find(path=W + "calculate_population_variance"))
    tab = {}
    for g, term, bi in v.expanded_cases(0):
        for conj in g:
            for a in conj:
                c = atoms.atom_cmp(a)
                if c:
                    tab["%s(%s,%s)" % (c[0], render(c[1]), render(c[2]))] = render(term)
    want = {"lt(count,rust_decimal::Decimal::ONE)": "rust_decimal::Decimal::ZERO",
            "le(rust_decimal::Decimal::ONE,count)": "Div::div(recurrence_relation_m, count)"}
    ctx.check("welford_online::calculate_population_variance", tab == want, "population variance = M / n (0 for an empty set)", got=tab, want=want, key="table")


def r2(ctx):
    b = ctx.fibody(name="update", self_adt=DS, trait="")
    calls = b.real_calls()
    true = frozenset([frozenset()])
    cnt = [(bi, t, tm) for bi, t, tm in calls if tm[1] == "std::ops::AddAssign::add_assign" and render(tm[2][0]) == "self.count"]
    sm = [(bi, t, tm) for bi, t, tm in calls if tm[1] == "std::ops::AddAssign::add_assign" and render(tm[2][0]) == "self.sum"]
    ctx.check("DataSetSummary::update", len(cnt) == 1 and render(cnt[0][2][2][1]) == "rust_decimal::Decimal::ONE" and b.guard(cnt[0][0]) == true,
              "count += 1 for every value", got=[render(x[2]) for x in cnt], key="count")
    ctx.check("DataSetSummary::update", len(sm) == 1 and render(sm[0][2][2][1]) == "next_value" and b.guard(sm[0][0]) == true,
              "sum += value for every value", got=[render(x[2]) for x in sm], key="sum")
    cm = [(bi, t, tm) for bi, t, tm in calls if tm[1] == W + "calculate_mean"]
    st = [(bi, si, s, value) for bi, si, path, value, s in b.stores() if render(path) == "self.mean"]
    du = [(bi, t, tm) for bi, t, tm in calls if mir.short(tm[1]) == "Dispersion::update"]
    ok = len(cm) == 1 and len(st) == 1 and len(du) == 1 and len(cnt) == 1
    ctx.check("DataSetSummary::update", ok, "one mean computation, one mean store, one dispersion update", got=(len(cm), len(st), len(du)), key="shape")
    if not ok:
        return
    ctx.check("DataSetSummary::update", st[0][2]["rv"] is not None and st[0][3] == cm[0][2] and b.guard(st[0][0]) == true and b.guard(du[0][0]) == true,
              "the stored mean is exactly the result of calculate_mean (not rounded / adjusted), and mean and dispersion are updated for every value",
              got=render(st[0][3])[:200], key="mean-stored-as-computed")
    ctx.check("DataSetSummary::update", [render(a) for a in cm[0][2][2]] == ["self.mean", "next_value", "self.count"] and
              b.dominates(cnt[0][0], cm[0][0]) and cnt[0][0] != cm[0][0],
              "new mean = calculate_mean(current mean, value, ALREADY incremented count)", got=render(cm[0][2]), key="mean-args")
    # dispersion.update(prev_mean, new_mean, value, count): follow each argument back through copies of locals to the
    # statement that actually READS memory; the previous mean must be read from self.mean before the new mean is stored,
    # the new mean after it (idiom-independent: works the same when the copy lives in a helper that was inlined)
    def origin_read(op):
        p = op.get("c") or op.get("m")
        hops = 0
        while p is not None and not p["p"] and hops < 12:
            ds = b.defs.get(p["l"], [])
            if len(ds) != 1 or ds[0][2] != "stmt" or ds[0][3]["rv"]["r"] != "use":
                return None
            o = ds[0][3]["rv"]["o"]
            q = o.get("c") or o.get("m")
            if q is None:
                return None
            if q["p"]:
                return (ds[0][0], ds[0][1], render(b.place_term(q)))
            p = q
            hops += 1
        return None
    args = du[0][1]["args"]
    r0, r1 = origin_read(args[1]), origin_read(args[2])
    okr = r0 is not None and r0[2] == "self.mean" and _before(b, (r0[0], r0[1]), (st[0][0], st[0][1]))
    ctx.check("DataSetSummary::update", okr, "the previous mean handed to the dispersion is read from self.mean BEFORE the new mean is stored",
              got=r0, key="prev-mean-first")
    okn = r1 is not None and r1[2] == "self.mean" and _before(b, (st[0][0], st[0][1]), (r1[0], r1[1]))
    ctx.check("DataSetSummary::update", okr and okn and [render(x) for x in du[0][2][2]] == ["self.dispersion", "self.mean", "self.mean", "next_value", "self.count"]
              and _before(b, (st[0][0], st[0][1]), (du[0][0], None)),
              "dispersion.update(previous mean, new mean, value, count) - in those roles, the new mean read after it is stored",
              got=(r1, render(du[0][2])), key="dispersion-args")
    db = ctx.fibody(name="update", self_adt=DISP, trait="")
    names = [db.param_name(i) for i in range(1, db.argc + 1)]
    ctx.check("Dispersion::update", names == ["self", "prev_mean", "new_mean", "new_value", "value_count"], "parameter roles", got=names, key="params")


def r3(ctx):
    b = ctx.fibody(name="update", self_adt=DISP, trait="")
    calls = b.real_calls()
    st = {render(path): (bi, si, value) for bi, si, path, value, s in b.stores()}
    ru = [(bi, t, tm) for bi, t, tm in calls if mir.short(tm[1]) == "Range::update"]
    ctx.check("Dispersion::update", len(ru) == 1 and [render(a) for a in ru[0][2][2]] == ["self.range", "new_value"] and
              b.guard(ru[0][0]) == frozenset([frozenset()]), "the range sees every value", got=[render(x[2]) for x in ru], key="range")
    m = st.get("self.recurrence_relation_m")
    v = st.get("self.variance")
    sd = st.get("self.std_dev")
    ok = m is not None and v is not None and sd is not None
    ctx.check("Dispersion::update", ok, "M, variance and standard deviation are all stored", got=sorted(st), key="stores")
    if not ok:
        return
    true = frozenset([frozenset()])
    cond = {k: mir.render_guard(b.guard(x[0]))[:160] for k, x in (("M", m), ("variance", v), ("std_dev", sd)) if b.guard(x[0]) != true}
    allst = [render(path) for bi, si, path, value, s in b.stores()]
    ctx.check("Dispersion::update", not cond and sorted(allst) == ["self.recurrence_relation_m", "self.std_dev", "self.variance"],
              "M, variance and standard deviation are each stored exactly once, for EVERY value (no early return / skipped update)",
              got={"conditional": cond, "stores": sorted(allst)}, key="every-value")
    ctx.check("Dispersion::update", render(m[2]) == "welford_online::calculate_recurrence_relation_m(self.recurrence_relation_m, prev_mean, new_value, new_mean)",
              "M' = recurrence(own previous M, previous mean, value, new mean)", got=render(m[2]), key="m-args")
    var_ok = render(v[2]) == "welford_online::calculate_population_variance(self.recurrence_relation_m, value_count)"
    if not var_ok and v[2][0] == "phi" and len(v[2]) > 2 and v[2][2] is not None:
        # the leaf written out at the call site: same cases as the leaf (checked in R1) applied to (new M, count)
        leaf = [d for d in ctx.facts.bodies if mir._strip_generics(d) == "barter::statistic::algorithm::welford_online::calculate_population_variance"]
        if len(leaf) == 1:
            lb = ctx.ibody(leaf[0])
            call = ("call", leaf[0], (("proj", ("param", 1, "self"), ("recurrence_relation_m",)), ("param", [i for i in range(1, b.argc + 1) if b.param_name(i) == "value_count"][0], "value_count")), None)
            want_cases = sorted((common.canon_guard(g), render(t)) for g, t in (common.at_call(ctx, call) or []))
            got_cases = sorted((common.canon_guard(g), render(t)) for g, t, bi in b.local_cases(v[2][2]))
            var_ok = bool(want_cases) and want_cases == got_cases
    ctx.check("Dispersion::update", var_ok
              and _before(b, (m[0], m[1]), (v[0], v[1])) and (m[0], m[1]) != (v[0], v[1]),
              "variance from the NEW M and the count", got=render(v[2]), key="variance")
    rsd = render(sd[2])
    # exactly the library square root of the new variance (the `expect` / `unwrap` around it only asserts non-negativity): an
    # approximation of the workspace's own (iteration cap, seeded from the previous root) is a different number
    core = sd[2]
    while core[0] == "call" and mir.short(core[1]) in ("Option::expect", "Option::unwrap", "Option::unwrap_or_default") and core[2]:
        core = core[2][0]
    ctx.check("Dispersion::update", render(core) in ("MathematicalOps::sqrt(Decimal::abs(self.variance))", "MathematicalOps::sqrt(self.variance)")
              and _before(b, (v[0], v[1]), (sd[0], sd[1])),
              "standard deviation = sqrt(|NEW variance|), the exact library root", got=rsd[:200], key="std-dev")


def r4(ctx):
    """Range::update touches its values only through comparisons: decide it on the finite set of orderings of
    (new_value, low, high) with low <= high, x activated in {false, true}."""
    import itertools
    b = ctx.fibody(name="update", self_adt=RNG, trait="")
    stores = []
    for bi, si, path, value, s in b.stores():
        if render(path) == "self":
            # `*self = Self::init(v)`: a whole-struct store through the constructor = one store per field (read at this call site)
            v2 = common.resolve_calls(ctx, value, lambda n: n.endswith("Range::init"))
            if v2[0] == "agg" and v2[2]:
                for fld, op in zip(v2[2], v2[3]):
                    stores.append((bi, si, "self." + fld, render(op), b.guard(bi)))
                continue
        stores.append((bi, si, render(path), render(value), b.guard(bi)))
    syms = ("new_value", "self.low", "self.high")
    problems = []
    # a guard that reads a field after an earlier store to that field cannot be evaluated on the pre-state: fail closed
    for bi, si, path, value, g in stores:
        for x in sorted(b.reach_from(bi) | {bi}):
            if b.blocks[x]["term"]["t"] == "switch":
                for lab, y in b.succ[x]:
                    a = b.edge_atom(x, lab)
                    if a and path in render(a[1]):
                        problems.append("the decision at bb%d reads %s after it was stored at bb%d" % (x, path, bi))
                    break

    def holds(atom, rank, act):
        c = atoms.atom_cmp(atom)
        if c:
            op, x, y = c[0], render(c[1]), render(c[2])
            if x not in rank or y not in rank:
                raise KeyError(mir.render_atom(atom))
            return {"lt": rank[x] < rank[y], "le": rank[x] <= rank[y], "eq": rank[x] == rank[y], "ne": rank[x] != rank[y]}[op]
        if atom[0] == "bool" and render(atom[1]) == "self.activated":
            return act == bool(atom[2])
        raise KeyError(mir.render_atom(atom))

    n = 0
    try:
        for ranks in itertools.product(range(3), repeat=3):
            rank = dict(zip(syms, ranks))
            for act in (False, True):
                if act and rank["self.low"] > rank["self.high"]:
                    continue
                n += 1
                out = {}
                for bi, si, path, value, g in stores:
                    if any(all(holds(a, rank, act) for a in conj) for conj in g):
                        out.setdefault(path, set()).add(value)
                res = {}
                for f in ("self.high", "self.low"):
                    vs = out.get(f, {f})
                    if not vs <= set(syms):
                        problems.append("%s <- %s" % (f, sorted(vs)))
                        continue
                    rs = {rank[v] for v in vs}
                    res[f] = rs
                want_hi = max(rank["new_value"], rank["self.high"]) if act else rank["new_value"]
                want_lo = min(rank["new_value"], rank["self.low"]) if act else rank["new_value"]
                if res.get("self.high") != {want_hi} or res.get("self.low") != {want_lo}:
                    problems.append("activated=%s order=%s: high<-%s low<-%s" % (act, rank, sorted(out.get("self.high", [])), sorted(out.get("self.low", []))))
                if not act and out.get("self.activated") != {"1"}:
                    problems.append("first value does not activate the range")
                if act and out.get("self.activated", {"1"}) != {"1"}:
                    problems.append("an active range is deactivated")
    except KeyError as e:
        problems.append("unevaluable guard atom %s" % e)
    ctx.check("Range::update", not problems and len(stores) >= 3,
              "on every ordering of (value, low, high): the first value seeds both bounds; afterwards high' = max(high, value), "
              "low' = min(low, value)", got=problems[:4], key="table")
    ctx.extra["C17.R4 orderings evaluated"] = n
    rb = ctx.fibody(name="range", self_adt=RNG, trait="")
    try:
        ok = formula.equal(formula.to_sympy(ctx.facts, rb.return_term()), sympy.Symbol("self.high") - sympy.Symbol("self.low"))
    except formula.NotAFormula:
        ok = False
    ctx.check("Range::range", ok, "range = high - low", got=render(rb.return_term()), key="formula")


RULES = [
    ("R1", "Welford leaf recurrences (mean, M, population variance)", r1),
    ("R2", "DataSetSummary::update: count/sum on every value; previous mean read before the store; roles", r2),
    ("R3", "Dispersion::update: M from own M, variance from the new M, std-dev from the new variance", r3),
    ("R4", "Range update table and range formula", r4),
]
