"""C06 - Binance L2 streams never leave a silently wrong local book."""
import itertools
import json
import os

from sa import atoms, mir, table, whomay
from sa.mir import render, render_guard
from rules import common

EXPLANATION = (
    "The sequencing predicates of both Binance L2 sequencers (validate_sequence with validate_first_update / "
    "validate_next_update inlined through their own MIR) are extracted as quantifier-free formulas over "
    "(first?, U, u, pu, last) and compared with the venue's published rule (rules/tables/c06_binance.json) on every "
    "assignment of a small integer box (difference constraints with constants <= 1: small-model property; box 0..5); "
    "state (last id, processed count) advances only under the accept formula, to the accepted update's u; the "
    "transformer surfaces every sequencer error and unknown subscription, emits one update with the validating "
    "sequencer's instrument key; InvalidSequence is terminal and with_termination_on_error ends the connection on "
    "terminal errors only; the sequencer is seeded from the snapshot's sequence and the emitted book carries the "
    "update's u, bids and asks."
)
NOT_DECIDED = ["REST/WS transport", "equality with the exchange's book (needs C05's map argument plus the venue's guarantee)"]
ASSUMPTIONS = ["u64 arithmetic without overflow in the compared range", "the venue rule as published by Binance (App. C)"]
TECHNIQUE = "extracted guard formulas vs venue rule table, evaluated exhaustively on a small-model integer box"

HERE = os.path.dirname(os.path.abspath(__file__))
BOX = range(0, 6)

VENUES = {
    "spot": ("barter_data::exchange::binance::spot::l2::BinanceSpotOrderBookL2Sequencer",
             "barter_data::exchange::binance::spot::l2::BinanceSpotOrderBooksL2Transformer",
             "barter_data::exchange::binance::spot::l2::BinanceSpotOrderBookL2Update"),
    "futures": ("barter_data::exchange::binance::futures::l2::BinanceFuturesUsdOrderBookL2Sequencer",
                "barter_data::exchange::binance::futures::l2::BinanceFuturesUsdOrderBooksL2Transformer",
                "barter_data::exchange::binance::futures::l2::BinanceFuturesOrderBookL2Update"),
}

VARS = {"update.first_update_id": "U", "update.last_update_id": "u", "update.prev_last_update_id": "pu",
        "self.last_update_id": "last"}


class Unsupported(Exception):
    pass


def ev_int(t, env):
    r = render(t)
    if r in VARS:
        return env[VARS[r]]
    if r == "self.updates_processed":
        return 0 if env["first"] else 1
    if t[0] == "const":
        try:
            return int(t[1])
        except ValueError:
            raise Unsupported(r)
    if t[0] == "proj" and t[2][-1] == "0" and t[1][0] == "bin" and t[1][1].endswith("WithOverflow") and len(t[2]) == 1:
        return ev_int(("bin", t[1][1][:-len("WithOverflow")], t[1][2], t[1][3]), env)
    if t[0] == "bin" and t[1] in ("Add", "Sub"):
        a, b = ev_int(t[2], env), ev_int(t[3], env)
        return a + b if t[1] == "Add" else a - b
    raise Unsupported(r)


def ev_bool(t, env):
    c = atoms.cmp_term(t)
    if c:
        op, a, b = c
        x, y = ev_int(a, env), ev_int(b, env)
        return {"le": x <= y, "lt": x < y, "ge": x >= y, "gt": x > y, "eq": x == y, "ne": x != y}[op]
    raise Unsupported(render(t))


def outcome(ctx, b, env, depth=0):
    """evaluate the extracted return cases of a sequencer function under env -> label"""
    def val(a):
        if a[0] == "bool":
            return ev_bool(a[1], env) == a[2]
        if a[0] == "is" and a[1][0] == "call" and a[1][1].endswith("Try::branch"):
            inner = a[1][2][0]
            if inner[0] == "phi" and len(inner) > 2 and inner[2] is not None:
                # `let r = if first { validate_first(..) } else { validate_next(..) }; r?` (also through an inlined helper):
                # the arm whose own guard holds under this assignment decides
                for g2, t2, bi2 in b.local_cases(inner[2]):
                    if any(all(val(x) for x in conj) for conj in g2):
                        return val(("is", ("call", a[1][1], (t2,)) + tuple(a[1][3:]), a[2], a[3], a[4]))
                return False    # no arm assigns the value under this assignment: the `?` is not reached at all
            if inner[0] == "call" and inner[1] in ctx.facts.bodies and [render(x) for x in inner[2]] == ["self", "update"] and depth < 2:
                res = outcome(ctx, ctx.ibody(inner[1]), env, depth + 1)
                return ("Continue" if res == "ok" else "Break") in a[2]
            raise Unsupported(mir.render_atom(a))
        raise Unsupported(mir.render_atom(a))
    active = []
    for g, term, bi in b.expanded_cases(0):
        hit = False
        for conj in g:
            if all(val(a) for a in conj):
                hit = True
                break
        if hit:
            r = render(term)
            if r == "Result::Ok{0: Option::None{}}":
                active.append("drop")
            elif r == "Result::Ok{0: Option::Some{0: update}}":
                active.append("accept")
            elif r == "Result::Ok{0: tuple{}}":
                active.append("ok")
            elif r.startswith("Result::Err{0: DataError::InvalidSequence"):
                active.append("err")
            elif r.startswith("FromResidual::from_residual("):
                active.append("reject")
            else:
                active.append("?" + r[:60])
    if len(active) != 1:
        return "ambiguous:%s" % active
    return active[0]


def rule_outcome(rule, env):
    e = dict(env)
    if eval(rule["drop"], {}, e):
        return "drop"
    ok = eval(rule["first"], {}, e) if env["first"] else eval(rule["next"], {}, e)
    return "accept" if ok else "reject"


def r1(ctx):
    rules = json.load(open(os.path.join(HERE, "tables", "c06_binance.json")))
    for venue, (seq, _, _) in VENUES.items():
        b = ctx.fibody(name="validate_sequence", self_adt=seq, trait="")
        for fn in ("validate_first_update", "validate_next_update", "is_first_update"):
            ctx.find(name=fn, self_adt=seq, trait="")
        n = 0
        bad = []
        try:
            for first in (True, False):
                for U, u, pu, last in itertools.product(BOX, BOX, BOX, BOX):
                    env = {"first": first, "U": U, "u": u, "pu": pu, "last": last}
                    got = outcome(ctx, b, env)
                    want = rule_outcome(rules[venue], env)
                    n += 1
                    if got != want and len(bad) < 6:
                        bad.append((env, got, want))
        except Unsupported as ex:
            ctx.check("%s:validate_sequence" % venue, False,
                      "the sequencing decision depends on a condition outside the declared abstraction (first?, U, u, pu, last) - fail closed",
                      got=str(ex), key="abstraction")
            continue
        ctx.check("%s:validate_sequence" % venue, not bad,
                  "drop / accept / reject must coincide with the venue's published rule on every assignment: " + json.dumps(rules[venue]),
                  sites=[ctx.facts.bodies[b.defn]["span"]], got=bad, key="venue-rule")
        ctx.extra.setdefault("c06_assignments_evaluated", {})[venue] = n
        # the error reported on a break is InvalidSequence
        for fn in ("validate_first_update", "validate_next_update"):
            fb = ctx.fibody(name=fn, self_adt=seq, trait="")
            errs = [render(t) for g, t, bi in fb.expanded_cases(0) if render(t).startswith("Result::Err")]
            ctx.check("%s:%s" % (venue, fn), len(errs) == 1 and errs[0].startswith("Result::Err{0: DataError::InvalidSequence{"),
                      "a broken chain is reported as DataError::InvalidSequence", got=errs, key="error-kind")


def r2(ctx):
    for venue, (seq, _, _) in VENUES.items():
        b = ctx.fibody(name="validate_sequence", self_adt=seq, trait="")
        acc = [g for g, t, bi in b.expanded_cases(0) if render(t) == "Result::Ok{0: Option::Some{0: update}}"]
        ctx.check("%s:validate_sequence" % venue, len(acc) == 1, "one accepting return", got=len(acc), key="one-accept")
        if len(acc) != 1:
            continue
        st = b.stores()
        got = {}
        dup = []
        for bi, si, path, value, s in st:
            if render(path) in got:
                dup.append(render(path))
            got[render(path)] = (render(value), b.guard(bi) == acc[0] and got.get(render(path), (0, True))[1], bi, si)
        ctx.check("%s:validate_sequence" % venue, not dup, "each sequencer field is stored at exactly one place", got=dup, key="single-store")
        want = {"self.last_update_id": "update.last_update_id", "self.updates_processed": "AddWithOverflow(self.updates_processed, 1).0"}
        if venue == "spot":
            want["self.prev_last_update_id"] = "self.last_update_id"
        ctx.check("%s:validate_sequence" % venue, {k: v[0] for k, v in got.items()} == want,
                  "on acceptance the stored id becomes the accepted update's last id and the processed count grows by one",
                  sites=[s[4]["sp"] for s in st], got={k: v[0] for k, v in got.items()}, want=want, key="stores")
        ctx.check("%s:validate_sequence" % venue, all(v[1] for v in got.values()),
                  "sequencer state changes exactly under the accept condition (never on drop or reject, never before validation)",
                  got={k: v[1] for k, v in got.items()}, key="only-on-accept")
        if venue == "spot" and "self.prev_last_update_id" in got and "self.last_update_id" in got:
            p, l = got["self.prev_last_update_id"], got["self.last_update_id"]
            before = (p[2] == l[2] and p[3] < l[3]) or (p[2] != l[2] and b.dominates(p[2], l[2]))
            if not before:
                # `prev = mem::replace(&mut last, new)`: the value stored into prev was READ from last before last is overwritten
                ps = [s_ for s_ in st if render(s_[2]) == "self.prev_last_update_id"]
                rv = ps[0][4].get("rv", {}) if ps else {}
                r0 = common.origin_read(b, rv.get("o", {})) if rv.get("r") == "use" else None
                before = r0 is not None and r0[2] == "self.last_update_id" and \
                    ((r0[0] == l[2] and r0[1] < l[3]) or (r0[0] != l[2] and b.dominates(r0[0], l[2])))
            ctx.check("spot:validate_sequence", before,
                      "the previous id is saved (read) before the current id is overwritten", key="prev-first")
        # who may write
        adt = seq
        for fld in ("last_update_id", "updates_processed"):
            ws = [w for w in whomay.writers_of(ctx.facts, adt, fld) if not common.is_test(ctx.facts, w[0])
                  and not common.is_derived(ctx.facts, whomay.owner_fn(w[0])) and w[2] != "construct"]
            owners = sorted(set(mir.short(o) for w in ws for o in common.effective_owners(ctx.facts, w[0])))
            ctx.check("%s:%s" % (venue, fld), owners == [mir.short(seq) .split("::")[-1] + "::validate_sequence"],
                      "only validate_sequence changes the sequencer state", got=owners, key="writers")


def r3(ctx):
    T = "barter_integration::Transformer"
    for venue, (seq, tr, upd) in VENUES.items():
        b = ctx.fibody(name="transform", self_adt=tr, trait=T)
        tab = {}
        for g, term, bi in b.expanded_cases(0):
            r = render(term)
            for conj in g:
                key = []
                for a in sorted(conj, key=repr):
                    if a[0] == "is":
                        t = a[1]
                        rt = render(t)
                        nm = "|".join(sorted(a[2]))
                        if "input.subscription_id" in rt and "find_mut" not in rt or (t[0] == "call" and t[1].endswith("Identifier::id")):
                            key.append("id=" + nm)
                        elif t[0] == "call" and t[1].endswith("find_mut"):
                            key.append("find=" + nm)
                        elif t[0] == "call" and mir.short(t[1]).endswith("::validate_sequence"):
                            key.append("validate=" + nm)
                        elif t[0] == "proj" and t[1][0] == "call" and mir.short(t[1][1]).endswith("::validate_sequence") and t[2] == ("as:Ok", "0"):
                            key.append("update=" + nm)
                        else:
                            key.append("?" + mir.render_atom(a)[:80])
                    else:
                        key.append("?" + mir.render_atom(a)[:80])
                tab[",".join(sorted(key))] = r
        okc = 0

        def has(k, pred, what):
            nonlocal okc
            v = tab.get(k)
            good = v is not None and pred(v)
            ctx.check("%s:transform:%s" % (venue, k), good, what, got=v[:300] if v else sorted(tab), key="arm")
            okc += 1
        empty = lambda v: v in ("Vec::new()", "vec{}")
        has("id=None", empty, "a message without a subscription id produces nothing")
        has("find=Err,id=Some", lambda v: v.startswith("vec{Result::Err{0: ") and "::from(Map::find_mut(self.instrument_map, input.subscription_id).as:Err.0)}}" in v,
            "an unknown subscription id surfaces as an error (never silently dropped)")
        has("find=Ok,id=Some,validate=Err", lambda v: v.startswith("vec{Result::Err{0:") and "validate_sequence" in v and v.endswith(".as:Err.0}}"),
            "a sequencer error is passed on to the consumer (not dropped)")
        has("find=Ok,id=Some,update=None,validate=Ok", empty, "a stale update is dropped silently")
        has("find=Ok,id=Some,update=Some,validate=Ok",
            lambda v: "::from(tuple{0: barter_data::exchange::Connector::ID<" in v and
            ", 1: Map::find_mut(self.instrument_map, input.subscription_id).as:Ok.0.key, 2: " in v and
            v.endswith("validate_sequence(Map::find_mut(self.instrument_map, input.subscription_id).as:Ok.0.sequencer, input).as:Ok.0.as:Some.0}).0"),
            "an accepted update becomes one event keyed by the instrument whose sequencer validated it")
        ctx.check("%s:transform" % venue, len(tab) == 5, "exactly these five outcomes", got=sorted(tab), key="arms")
        # the validating sequencer belongs to the instrument found for the message's own id
        vs = [(bi, t, tm) for bi, t, tm in b.real_calls() if mir.short(tm[1]).endswith("::validate_sequence")]
        ok = len(vs) == 1 and "find_mut(self.instrument_map" in render(vs[0][2][2][0]) and render(vs[0][2][2][0]).endswith(".sequencer") \
            and render(vs[0][2][2][1]) == "input"
        ctx.check("%s:transform" % venue, ok, "the update is validated by the sequencer of the instrument its own id maps to",
                  got=[render(x[2])[:200] for x in vs], key="own-sequencer")
    ctx.floor("transformers", 2, 2)


def r4(ctx):
    DE = "barter_data::error::DataError"
    b = ctx.fibody(name="is_terminal", self_adt=DE, trait="")
    tab = {}
    for g, term, bi in b.expanded_cases(0):
        for conj in g:
            for a in conj:
                if a[0] == "is" and render(a[1]) == "self":
                    for nm in a[2]:
                        tab[nm] = render(term)
    ctx.check("DataError::is_terminal", tab.get("InvalidSequence") in ("true", "const true", "1"),
              "a sequence break is a terminal error", got=tab.get("InvalidSequence"), key="invalid-sequence")
    # with_termination_on_error: Ok -> pass, terminal Err -> end, other Err -> pass
    RS = "barter_data::streams::reconnect::stream::ReconnectingStream"
    w = ctx.find(name="with_termination_on_error", trait=RS)
    inner = [d for d in ctx.closures_of(w)]
    leaf = None
    for d in sorted(ctx.facts.bodies):
        if d.startswith(w + "::{closure#") and ctx.facts.bodies[d]["kind"] == "closure":
            cb_ = ctx.ibody(d)
            if cb_.locals[0]["ty"].startswith("std::option::Option<std::result::Result<"):
                leaf = d
    if leaf is None:
        raise Exception("map_while closure of with_termination_on_error not found")
    lb = ctx.ibody(leaf)
    tab = {}
    for g, term, bi in lb.expanded_cases(0):
        for conj in g:
            key = []
            for a in sorted(conj, key=repr):
                if a[0] == "is" and render(a[1]) == "$1":
                    key.append("|".join(sorted(a[2])))
                elif a[0] == "bool" and a[1][0] == "call" and "is_terminal" in render(a[1]):
                    key.append("terminal=%s" % a[2])
                else:
                    key.append("?" + mir.render_atom(a)[:60])
            tab[",".join(sorted(key))] = render(term)
    want = {"Ok": "Option::Some{0: Result::Ok{0: $1.as:Ok.0}}", "Err,terminal=True": "Option::None{}",
            "Err,terminal=False": "Option::Some{0: Result::Err{0: $1.as:Err.0}}"}
    ctx.check("with_termination_on_error", tab == want,
              "items pass, a terminal error ends the connection's stream (map_while None), other errors pass through",
              got=tab, want=want, key="table")
    # init_market_stream wires DataError::is_terminal into with_termination_on_error
    ims = [d for d in ctx.facts.bodies if d.startswith("barter_data::streams::consumer::init_market_stream")]
    found = False
    names = []
    for d in ims:
        bb = ctx.ibody(d)
        for bi, t, tm in bb.real_calls():
            if tm[1].endswith("ReconnectingStream::with_termination_on_error"):
                cl = tm[2][1]
                if cl[0] == "agg":
                    cb, _ = mir.closure_body(ctx.facts, cl)
                    names.append(render(cb.return_term()))
                    if mir.short(cb.return_term()[1]) == "DataError::is_terminal" and render(cb.return_term()[2][0]) == "$1":
                        found = True
    ctx.check("init_market_stream", found, "market streams terminate (and re-initialise) on DataError::is_terminal errors", got=names, key="wired")
    ctx.floor("termination wiring", 3, 3)


def r5(ctx):
    ET = "barter_data::transformer::ExchangeTransformer"
    n = 0
    for venue, (seq, tr, upd) in VENUES.items():
        init0 = ctx.find(name="init", self_adt=tr, trait=ET)
        inits = [d for d in ctx.facts.bodies if d == init0 or d.startswith(init0 + "::{closure#")]
        seeds = []
        for d in inits:
            bb = ctx.ibody(d)
            for bi, t, tm in bb.real_calls():
                if tm[1] == seq + "::new" or (mir.short(tm[1]).endswith("Sequencer::new")):
                    # (`?` read through: a seed obtained from a fallible private helper is that helper's Ok payload)
                    seeds.append(render(common.drop_never(common.untry(bb, tm[2][0]))))
            # `Sequencer::new` is constructor-like and may be inlined by the provenance engine: look for the literal
            terms = [bb.call_term(t, bi) for bi, t in bb.iter_calls()] + [bb.return_term()]
            for tm in terms:
                for sub in mir.subterms(tm):
                    if sub[0] == "agg" and sub[1].startswith("adt:" + seq + "::"):
                        f = dict(zip(sub[2], sub[3]))
                        if "last_update_id" in f:
                            seeds.append(render(common.drop_never(common.untry(bb, f["last_update_id"]))))
        # `new` may be inlined as a constructor: look for the aggregate too
        ok = bool(seeds) and all(x.endswith(".sequence") and "snapshot" in x.lower() or x.endswith(".kind.as:Snapshot.0.sequence") for x in seeds)
        n += 1
        ctx.check("%s:transformer-init" % venue, ok, "the sequencer is seeded with the initial snapshot's sequence (lastUpdateId)",
                  got=seeds, key="seed")
        nb = ctx.fibody(name="new", self_adt=seq, trait="")
        rt = nb.return_term()
        f = {k: render(v) for k, v in zip(rt[2], rt[3])} if rt[0] == "agg" else {}
        ctx.check("%s:Sequencer::new" % venue, f.get("last_update_id") == "last_update_id" and f.get("updates_processed") == "0",
                  "a fresh sequencer holds the given id and has processed nothing", got=f, key="new")
        conv = [d for d in ctx.facts.bodies if "MarketIter" in (ctx.facts.bodies[d].get("impl_self") or "") and upd.split("::")[-1] in d
                and ctx.facts.bodies[d].get("name") == "from" and ctx.facts.bodies[d]["kind"] == "assoc_fn"]
        ok = False
        got = None
        for d in conv:
            cb = ctx.ibody(d)
            got = render(cb.return_term())
            ok = ("OrderBookEvent::Update{0: OrderBook::new($.last_update_id, Option::None{}, $.bids, $.asks)}".replace("$", "_1.2") in got
                  or "OrderBook::new(" in got and ".last_update_id" in got and ".bids" in got and ".asks" in got) and "instrument: " in got
        n += 1
        ctx.check("%s:update-event" % venue, ok, "the emitted book update carries the update's last id as its sequence and the update's bids and asks",
                  got=got[:400] if got else conv, key="payload")
    ctx.floor("seed + payload checks", n, 4)


def r6(ctx):
    # re-initialisation: a snapshot must REPLACE the local book (shared with C05.R4); an accepted update is upserted
    from rules import C05
    C05.r4(ctx)


def _srcs(term):
    """which of the two initial event sources a term is derived from"""
    out = set()
    for s_ in mir.subterms(term):
        r = render(s_) if s_[0] in ("call", "proj") else ""
        if s_[0] == "call" and s_[1].endswith("SnapshotFetcher::fetch_snapshots"):
            out.add("snapshots")
        if (s_[0] == "call" and mir.short(s_[1]).endswith("process_buffered_events")) or r.endswith(".buffered_websocket_events"):
            out.add("buffered")
    return out


def _strip_transformer(term):
    """the transformer (initialised FROM the snapshots) is captured by the closure that replays the buffered messages: that is
    a dependency of the replay on the snapshots' sequence numbers, not a source of events - cut closure captures out"""
    def f(q):
        if q[0] == "agg" and q[1].startswith("closure:"):
            return ("const", "closure", "")
        if q[0] == "call" and q[1].endswith("ExchangeTransformer::init"):
            return ("const", "transformer", "")
        return None
    return mir.subst(term, f)


def _ordered_parts(b, term):
    """the initial buffer as an ordered list of parts (front first): `X` then `extend(X, Y)` -> [X, Y]; chain(A, B) -> [A, B]"""
    if term[0] == "mutated":
        base = _ordered_parts(b, term[1])
        later = []
        for bi, t, tm in b.real_calls():
            nm = mir._strip_generics(tm[1])
            if tm[2] and tm[2][0] == term and nm.endswith(("Extend::extend", "::extend", "::push_back", "::append")):
                later.append((bi, [tm[2][1]]))
            elif tm[2] and tm[2][0] == term and nm.endswith("::push_front"):
                return None
            elif tm[2] and tm[2][0] == term and b.mut_args(t):
                return None
        later.sort(key=lambda x: x[0])
        for i in range(len(later) - 1):
            if not b.dominates(later[i][0], later[i + 1][0]):
                return None
        return None if base is None else base + [y for _, ys in later for y in ys]
    if term[0] == "call" and term[1].endswith(("Iterator::collect", "FromIterator::from_iter", "IntoIterator::into_iter")) and len(term[2]) == 1:
        return _ordered_parts(b, term[2][0])
    if term[0] == "call" and term[1].endswith("Iterator::chain") and len(term[2]) == 2:
        x, y = _ordered_parts(b, term[2][0]), _ordered_parts(b, term[2][1])
        return None if x is None or y is None else x + y
    return [term]


def r7(ctx):
    """start early: messages buffered during subscription validation are replayed through the sequencer AFTER it was started from
    the snapshot, so an update admitted that way continues the snapshot - the stream must hand the consumer the snapshot events first.
    Delivered the other way round the snapshot overwrites the admitted update: the book misses its changes, and nothing reports it."""
    ds = [d for d in ctx.facts.bodies if "barter_data::MarketStream" in d and d.endswith("::init::{closure#0}")]
    if len(ds) != 1:
        raise Exception("MarketStream::init coroutine not found: %r" % ds)
    b = ctx.ibody(ds[0])
    news = [(bi, tm) for bi, t, tm in b.real_calls() if mir.short(tm[1]).endswith("ExchangeStream::new")]
    ok = len(news) == 1
    got = None
    if ok:
        parts = _ordered_parts(b, news[0][1][2][2])
        got = None if parts is None else [sorted(_srcs(_strip_transformer(p))) for p in parts]
        # front to back: all snapshot parts, then all replayed-buffered parts; both present
        flat = [x for x in (got or []) if x]
        ok = parts is not None and all(len(x) == 1 for x in flat) and [x[0] for x in flat] == sorted((x[0] for x in flat), key=lambda k: k != "snapshots") \
            and {x[0] for x in flat} == {"snapshots", "buffered"}
    ctx.check("MarketStream::init", ok, "the stream's initial buffer (drained front first) holds the snapshot events BEFORE the outputs of the "
              "buffered messages that were validated against those snapshots", got=got, key="snapshot-first")
    # the buffer is drained from the front, refilled at the back
    ES = "barter_integration::stream::ExchangeStream"
    pb = ctx.ibody(ctx.find(name="poll_next", self_adt=ES, trait="futures::Stream"))
    takes = sorted(set(mir.short(tm[1]) for bi, t, tm in pb.real_calls() if tm[2] and render(tm[2][0]).endswith(".buffer") and pb.mut_args(t)))
    ctx.check("ExchangeStream::poll_next", takes == ["VecDeque::pop_front", "VecDeque::push_back"],
              "outputs are taken from the front of the buffer and appended at the back (first in, first out)", got=takes, key="fifo")
    # the replay itself: every buffered message, in arrival order, through the transformer
    pe = ctx.ibody(ctx.find(path="barter_data::process_buffered_events"))
    try:
        src, steps, sink = common.pipeline(ctx, pe.return_term())
        got = (render(src), [k for k, v in steps], sink)
    except Exception as e:   # noqa
        got = "unrecognised: %s" % e
    ctx.check("process_buffered_events", isinstance(got, tuple) and got[0] == "events" and got[2] == "collect" and bool(got[1]) and
              all(k in ("filter", "map", "filter_map", "flat", "flat_map", "inspect") for k in got[1]) and got[1][-1] in ("flat", "flat_map"),
              "the buffered messages are parsed and transformed one by one in arrival order (a forward pipeline, nothing reordered)", got=got, key="in-order")


RULES = [
    ("R6", "OrderBook::update: a (re-initialisation) snapshot replaces the whole book; updates are upserted with their sequence", r6),
    ("R1", "sequencing predicate == venue rule on every assignment of the integer box (spot and USD futures)", r1),
    ("R2", "sequencer state advances only on acceptance, to the accepted update's id; who-may-write", r2),
    ("R3", "transformer outcome table: nothing / unidentifiable error / sequencer error surfaced / one keyed update", r3),
    ("R4", "InvalidSequence is terminal; terminal errors end the connection; wired into init_market_stream", r4),
    ("R5", "chain start from the snapshot's sequence; emitted book carries u, bids, asks", r5),
    ("R7", "start early: snapshot events are delivered before the replayed buffered updates; FIFO buffer; in-order replay", r7),
]
