//! Reference models of std combinators, each written as the `match` / loop std documents it to be equivalent to.
//! They are compiled through the same driver; `sa/inline.py` substitutes a call to the std function by the model's
//! MIR (and the closure argument by the closure's own MIR), so that `x.ok_or_else(|| e)` and
//! `match x { Some(v) => Ok(v), None => Err(e) }` present the same control-flow graph to the rules.
#![allow(dead_code, clippy::all)]
use std::task::Poll;

pub fn option_map<T, U, F: FnOnce(T) -> U>(this: Option<T>, f: F) -> Option<U> {
    match this {
        Some(x) => Some(f(x)),
        None => None,
    }
}

pub fn option_inspect<T, F: FnOnce(&T)>(this: Option<T>, f: F) -> Option<T> {
    if let Some(ref x) = this {
        f(x);
    }
    this
}

pub fn option_ok_or<T, E>(this: Option<T>, err: E) -> Result<T, E> {
    match this {
        Some(v) => Ok(v),
        None => Err(err),
    }
}

pub fn option_ok_or_else<T, E, F: FnOnce() -> E>(this: Option<T>, err: F) -> Result<T, E> {
    match this {
        Some(v) => Ok(v),
        None => Err(err()),
    }
}

pub fn option_unwrap_or<T>(this: Option<T>, default: T) -> T {
    match this {
        Some(x) => x,
        None => default,
    }
}

pub fn option_unwrap_or_else<T, F: FnOnce() -> T>(this: Option<T>, f: F) -> T {
    match this {
        Some(x) => x,
        None => f(),
    }
}

pub fn option_is_some_and<T, F: FnOnce(T) -> bool>(this: Option<T>, f: F) -> bool {
    match this {
        None => false,
        Some(x) => f(x),
    }
}

pub fn option_is_none_or<T, F: FnOnce(T) -> bool>(this: Option<T>, f: F) -> bool {
    match this {
        None => true,
        Some(x) => f(x),
    }
}

pub fn option_filter<T, P: FnOnce(&T) -> bool>(this: Option<T>, predicate: P) -> Option<T> {
    if let Some(x) = this {
        if predicate(&x) {
            return Some(x);
        }
    }
    None
}

pub fn option_and_then<T, U, F: FnOnce(T) -> Option<U>>(this: Option<T>, f: F) -> Option<U> {
    match this {
        Some(x) => f(x),
        None => None,
    }
}

pub fn bool_then_some<T>(this: bool, t: T) -> Option<T> {
    if this { Some(t) } else { None }
}

pub fn bool_then<T, F: FnOnce() -> T>(this: bool, f: F) -> Option<T> {
    if this { Some(f()) } else { None }
}

pub fn result_map<T, E, U, F: FnOnce(T) -> U>(this: Result<T, E>, op: F) -> Result<U, E> {
    match this {
        Ok(t) => Ok(op(t)),
        Err(e) => Err(e),
    }
}

pub fn result_map_err<T, E, G, O: FnOnce(E) -> G>(this: Result<T, E>, op: O) -> Result<T, G> {
    match this {
        Ok(t) => Ok(t),
        Err(e) => Err(op(e)),
    }
}

pub fn result_ok<T, E>(this: Result<T, E>) -> Option<T> {
    match this {
        Ok(x) => Some(x),
        Err(_) => None,
    }
}

pub fn result_and_then<T, E, U, F: FnOnce(T) -> Result<U, E>>(this: Result<T, E>, op: F) -> Result<U, E> {
    match this {
        Ok(t) => op(t),
        Err(e) => Err(e),
    }
}

pub fn result_unwrap_or_else<T, E, F: FnOnce(E) -> T>(this: Result<T, E>, op: F) -> T {
    match this {
        Ok(t) => t,
        Err(e) => op(e),
    }
}

pub fn poll_map<T, U, F: FnOnce(T) -> U>(this: Poll<T>, f: F) -> Poll<U> {
    match this {
        Poll::Ready(t) => Poll::Ready(f(t)),
        Poll::Pending => Poll::Pending,
    }
}

pub fn iterator_for_each<I: Iterator, F: FnMut(I::Item)>(mut this: I, mut f: F) {
    while let Some(x) = this.next() {
        f(x);
    }
}

pub fn iterator_all<I: Iterator, F: FnMut(I::Item) -> bool>(this: &mut I, mut f: F) -> bool {
    while let Some(x) = this.next() {
        if !f(x) {
            return false;
        }
    }
    true
}

pub fn iterator_any<I: Iterator, F: FnMut(I::Item) -> bool>(this: &mut I, mut f: F) -> bool {
    while let Some(x) = this.next() {
        if f(x) {
            return true;
        }
    }
    false
}

pub fn option_or<T>(this: Option<T>, optb: Option<T>) -> Option<T> {
    match this {
        Some(x) => Some(x),
        None => optb,
    }
}

pub fn option_or_else<T, F: FnOnce() -> Option<T>>(this: Option<T>, f: F) -> Option<T> {
    match this {
        Some(x) => Some(x),
        None => f(),
    }
}

pub fn option_map_or<T, U, F: FnOnce(T) -> U>(this: Option<T>, default: U, f: F) -> U {
    match this {
        Some(t) => f(t),
        None => default,
    }
}

pub fn option_map_or_else<T, U, D: FnOnce() -> U, F: FnOnce(T) -> U>(this: Option<T>, default: D, f: F) -> U {
    match this {
        Some(t) => f(t),
        None => default(),
    }
}

pub fn result_unwrap_or<T, E>(this: Result<T, E>, default: T) -> T {
    match this {
        Ok(t) => t,
        Err(_) => default,
    }
}

pub fn result_is_ok_and<T, E, F: FnOnce(T) -> bool>(this: Result<T, E>, f: F) -> bool {
    match this {
        Err(_) => false,
        Ok(x) => f(x),
    }
}

/// `std::mem::replace(dest, src)`: read the old value, store the new one, hand the old one back (the `Copy` bound only
/// exists so that the model can be written in safe Rust; bounds are irrelevant once the MIR is inlined)
pub fn mem_replace<T: Copy>(dest: &mut T, src: T) -> T {
    let old = *dest;
    *dest = src;
    old
}
