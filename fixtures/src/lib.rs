//! Positive / negative controls for the analysis primitives of /verif/sa (compiled through the same
//! driver as barter-rs).  Each `good_*` function satisfies the generic rule named in its doc comment,
//! each `bad_*` function violates it.  sa/fixtures.py asserts that the primitives tell them apart.
#![allow(dead_code, clippy::all)]

pub struct Timed {
    pub time: u64,
    pub value: i64,
}

pub struct Holder {
    pub held: Option<Timed>,
    pub cell: Timed,
    pub table: Vec<i64>,
    pub filtered: Vec<i64>,
    pub sent_log: Vec<u32>,
}

pub struct Msg {
    pub time: u64,
    pub value: i64,
}

impl Holder {
    /// store => held.time <= msg.time   (dominating branch form)
    pub fn good_guarded_store(&mut self, msg: &Msg) {
        if self.cell.time <= msg.time {
            self.cell.time = msg.time;
            self.cell.value = msg.value;
        }
    }

    /// polarity flipped
    pub fn bad_guarded_store_polarity(&mut self, msg: &Msg) {
        if self.cell.time >= msg.time {
            self.cell.time = msg.time;
            self.cell.value = msg.value;
        }
    }

    /// no guard at all
    pub fn bad_unguarded_store(&mut self, msg: &Msg) {
        self.cell.time = msg.time;
        self.cell.value = msg.value;
    }

    /// is_none_or(pred) form
    pub fn good_is_none_or(&mut self, msg: &Msg) {
        if self.held.as_ref().is_none_or(|h| h.time < msg.time) {
            self.held = Some(Timed { time: msg.time, value: msg.value });
        }
    }

    /// is_none_or with the comparison reversed
    pub fn bad_is_none_or(&mut self, msg: &Msg) {
        if self.held.as_ref().is_none_or(|h| h.time > msg.time) {
            self.held = Some(Timed { time: msg.time, value: msg.value });
        }
    }

    /// guard holds only on one of two paths to the store (DNF must have two disjuncts)
    pub fn bad_partially_guarded(&mut self, msg: &Msg, force: bool) {
        if force || self.cell.time <= msg.time {
            self.cell.value = msg.value;
        }
    }
}

pub struct Output {
    pub sent: Vec<u32>,
    pub errors: Vec<u32>,
}

pub fn send(reqs: Vec<u32>) -> Output {
    let (sent, errors) = reqs.into_iter().partition(|r| r % 2 == 0);
    Output { sent, errors }
}

pub fn record(log: &mut Vec<u32>, sent: &[u32]) {
    log.extend_from_slice(sent);
}

/// only the `.sent` half of the very send is recorded
pub fn good_record_sent(h: &mut Holder, reqs: Vec<u32>) -> Output {
    let out = send(reqs);
    record(&mut h.sent_log, &out.sent);
    out
}

/// the error half is recorded
pub fn bad_record_errors(h: &mut Holder, reqs: Vec<u32>) -> Output {
    let out = send(reqs);
    record(&mut h.sent_log, &out.errors);
    out
}

/// recording is skipped on one path
pub fn bad_record_sometimes(h: &mut Holder, reqs: Vec<u32>, flag: bool) -> Output {
    let out = send(reqs);
    if flag {
        record(&mut h.sent_log, &out.sent);
    }
    out
}

/// comparator orientation: descending sort + descending search
pub fn good_comparators(v: &mut Vec<i64>, x: i64) -> Result<usize, usize> {
    v.sort_by(|a, b| a.cmp(b).reverse());
    v.binary_search_by(|e| e.cmp(&x).reverse())
}

/// descending sort + ascending search
pub fn bad_comparators(v: &mut Vec<i64>, x: i64) -> Result<usize, usize> {
    v.sort_by(|a, b| a.cmp(b).reverse());
    v.binary_search_by(|e| e.cmp(&x))
}

pub fn notify(x: u32) {
    std::hint::black_box(x);
}

/// effect after the await
pub async fn good_after_await(fut: std::future::Ready<u32>) {
    let v = fut.await;
    notify(v);
}

/// effect before the await
pub async fn bad_before_await(fut: std::future::Ready<u32>) {
    notify(0);
    let _v = fut.await;
}

/// exactly one notify per loop iteration
pub fn good_once_per_iteration(items: &[u32]) {
    for i in items {
        let v = i + 1;
        notify(v);
    }
}

/// one path skips the notify
pub fn bad_skips_some(items: &[u32]) {
    for i in items {
        if *i == 3 {
            continue;
        }
        notify(*i);
    }
}

pub enum Shape {
    A,
    B(i64),
    C { x: i64 },
}

/// variant guards
pub fn variants(s: &Shape, out: &mut i64) {
    match s {
        Shape::A => {}
        Shape::B(v) => *out = *v,
        Shape::C { x } => *out = -*x,
    }
}

pub mod models;

/// Controls for sa/inline.py: each pair is the same behaviour written in two idioms; after inlining (std models,
/// closures, private helpers) the analysis must extract the same effects under the same guards from both.
pub mod inl {
    use std::collections::HashMap;

    pub struct S {
        pub map: HashMap<u32, i64>,
        pub log: Vec<i64>,
        pub v: i64,
        pub seen: Option<i64>,
    }

    impl S {
        pub fn find_combinator(&self, k: &u32) -> Result<&i64, String> {
            self.map.get(k).ok_or_else(|| format!("no {k}"))
        }

        pub fn find_match(&self, k: &u32) -> Result<&i64, String> {
            match self.map.get(k) {
                Some(v) => Ok(v),
                None => Err(format!("no {k}")),
            }
        }

        pub fn each_for(&mut self, xs: Vec<i64>) {
            for x in xs {
                self.log.push(x);
            }
        }

        pub fn each_for_each(&mut self, xs: Vec<i64>) {
            xs.into_iter().for_each(|x| self.log.push(x));
        }

        pub fn debit_inline(&mut self, d: i64) -> bool {
            let n = self.v - d;
            if n >= 0 {
                self.v = n;
                true
            } else {
                false
            }
        }

        pub fn debit_helper(&mut self, d: i64) -> bool {
            try_debit(&mut self.v, d)
        }

        pub fn note_inspect(&mut self, x: Option<i64>) -> Option<i64> {
            x.inspect(|v| self.log.push(*v))
        }

        pub fn note_if_let(&mut self, x: Option<i64>) -> Option<i64> {
            if let Some(v) = &x {
                self.log.push(*v);
            }
            x
        }

        pub fn newer_combinator(&mut self, t: i64) {
            if self.seen.as_ref().is_none_or(|s| *s < t) {
                self.seen = Some(t);
            }
        }

        pub fn newer_match(&mut self, t: i64) {
            let newer = match &self.seen {
                None => true,
                Some(s) => t > *s,
            };
            if newer {
                self.seen = Some(t);
            }
        }
    }

    /// derived-style constructor of a record with many fields (as derive_more::Constructor writes it): read as the literal
    pub struct Wide {
        pub a: String,
        pub b: String,
        pub c: String,
        pub d: String,
        pub e: String,
        pub f: String,
        pub g: Vec<i64>,
        pub h: Vec<i64>,
    }

    #[automatically_derived]
    impl Wide {
        #[allow(clippy::too_many_arguments)]
        pub fn new(a: String, b: String, c: String, d: String, e: String, f: String, g: Vec<i64>, h: Vec<i64>) -> Self {
            Self { a, b, c, d, e, f, g, h }
        }
    }

    pub fn wide_literal(x: String, y: String, v: Vec<i64>, w: Vec<i64>) -> Wide {
        Wide { a: x.clone(), b: y.clone(), c: x.clone(), d: y.clone(), e: x, f: y, g: v, h: w }
    }

    pub fn wide_ctor(x: String, y: String, v: Vec<i64>, w: Vec<i64>) -> Wide {
        Wide::new(x.clone(), y.clone(), x.clone(), y.clone(), x, y, v, w)
    }

    /// the same comparator as a closure literal and as a named function handed to the adaptor
    pub fn sort_closure(xs: &mut [(i64, i64)]) {
        xs.sort_unstable_by(|a, b| a.0.cmp(&b.0).reverse());
    }

    pub fn sort_named(xs: &mut [(i64, i64)]) {
        xs.sort_unstable_by(by_first_desc);
    }

    fn by_first_desc(a: &(i64, i64), b: &(i64, i64)) -> std::cmp::Ordering {
        a.0.cmp(&b.0).reverse()
    }

    fn try_debit(v: &mut i64, d: i64) -> bool {
        let n = *v - d;
        if n >= 0 {
            *v = n;
            true
        } else {
            false
        }
    }
}
