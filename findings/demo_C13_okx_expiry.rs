// PLACE AT: barter-data/tests/verif_demo_c13_okx_expiry.rs
// MODE: new-file
//
// C13 demonstration: Okx PublicTrades for dated contracts.  The market of a dated contract is "<BASE>-<QUOTE>-<yymmdd>..." with
// the CALENDAR date of the expiry ("230526" = 26th of May 2023, as `format_expiry` documents).  A contract that expires on
// Monday 2024-12-30 lies in ISO week 2025-W01: its ISO-8601 week-based year (25) differs from its calendar year (24).
//  - a trade for the subscribed contract "BTC-USD-241230" must become an event keyed to the subscribed instrument,
//  - a trade for the NOT subscribed contract "BTC-USD-251230" (a year later) must be unidentifiable - never an event
//    attributed to the 2024 instrument.
use barter_data::{
    error::DataError,
    event::MarketEvent,
    exchange::okx::{Okx, trade::OkxTrades},
    subscriber::mapper::{SubscriptionMapper, WebSocketSubMapper},
    subscription::{
        Subscription,
        trade::{PublicTrade, PublicTrades},
    },
    transformer::{ExchangeTransformer, stateless::StatelessTransformer},
};
use barter_instrument::{
    Keyed,
    instrument::market_data::{
        MarketDataInstrument,
        kind::{MarketDataFutureContract, MarketDataInstrumentKind},
    },
};
use barter_integration::Transformer;
use chrono::{DateTime, TimeZone, Utc};

type Key = &'static str;
type OkxTradesTransformer = StatelessTransformer<Okx, Key, PublicTrades, OkxTrades>;

fn future_subscription(key: Key, expiry: DateTime<Utc>) -> Subscription<Okx, Keyed<Key, MarketDataInstrument>, PublicTrades> {
    Subscription::new(
        Okx,
        Keyed::new(
            key,
            MarketDataInstrument::from(("btc", "usd", MarketDataInstrumentKind::Future(MarketDataFutureContract { expiry }))),
        ),
        PublicTrades,
    )
}

fn trades(inst_id: &str) -> OkxTrades {
    serde_json::from_str(&format!(
        r#"{{"arg":{{"channel":"trades","instId":"{inst_id}"}},"data":[{{"instId":"{inst_id}","tradeId":"4","px":"95000.5","sz":"2","side":"buy","ts":"1735500000123"}}]}}"#
    ))
    .unwrap()
}

async fn init_transformer() -> OkxTradesTransformer {
    let subscriptions = vec![
        // control: Friday 2024-12-27 (calendar year == ISO week-based year)
        future_subscription("btc_usd_20241227", Utc.with_ymd_and_hms(2024, 12, 27, 8, 0, 0).unwrap()),
        // Monday 2024-12-30 (ISO week 2025-W01)
        future_subscription("btc_usd_20241230", Utc.with_ymd_and_hms(2024, 12, 30, 8, 0, 0).unwrap()),
    ];
    let meta = WebSocketSubMapper::map::<Okx, _, PublicTrades>(&subscriptions);
    let (ws_sink_tx, _ws_sink_rx) = tokio::sync::mpsc::unbounded_channel();
    OkxTradesTransformer::init(meta.instrument_map, &[], ws_sink_tx).await.unwrap()
}

fn key_of(out: &[Result<MarketEvent<Key, PublicTrade>, DataError>]) -> Result<Key, String> {
    assert_eq!(out.len(), 1, "exactly one output");
    match &out[0] {
        Ok(event) => Ok(event.instrument),
        Err(error) => Err(format!("{error:?}")),
    }
}

#[tokio::test]
async fn verif_demo_c13_okx_control_ordinary_expiry() {
    let mut transformer = init_transformer().await;
    assert_eq!(key_of(&transformer.transform(trades("BTC-USD-241227"))), Ok("btc_usd_20241227"));
}

#[tokio::test]
async fn verif_demo_c13_okx_trade_for_subscribed_contract_expiring_20241230_is_attributed() {
    let mut transformer = init_transformer().await;
    assert_eq!(
        key_of(&transformer.transform(trades("BTC-USD-241230"))),
        Ok("btc_usd_20241230"),
        "a trade for the subscribed contract expiring 2024-12-30 must carry that instrument's key"
    );
}

#[tokio::test]
async fn verif_demo_c13_okx_trade_for_unsubscribed_contract_expiring_20251230_is_rejected() {
    let mut transformer = init_transformer().await;
    let out = key_of(&transformer.transform(trades("BTC-USD-251230")));
    assert!(
        matches!(&out, Err(message) if message.contains("unidentifiable")),
        "a trade for the NOT subscribed contract BTC-USD-251230 must be unidentifiable, got: {out:?}"
    );
}
