// PLACE AT: barter-execution/tests/verif_demo_c04.rs  (integration test of crate `barter-execution`)
//
// C04 demonstration: `ExecutionInstrumentMap` for the 2nd exchange of an `IndexedInstruments` must
// resolve GLOBAL `AssetIndex` / `InstrumentIndex` keys to that exchange's own names, round-trip
// name -> index -> name, and reject indices that belong to a different exchange.
use barter_execution::map::generate_execution_instrument_map;
use barter_instrument::{
    Underlying, asset::Asset, exchange::ExchangeId, index::IndexedInstruments,
    instrument::Instrument,
};

fn indexed_instruments() -> IndexedInstruments {
    IndexedInstruments::builder()
        // Exchange 0: BinanceSpot -> instruments 0,1 & assets 0,1,2
        .add_instrument(Instrument::spot(
            ExchangeId::BinanceSpot,
            "binance_spot_btc_usdt",
            "BTCUSDT",
            Underlying::new(Asset::new("btc", "BTC"), Asset::new("usdt", "USDT")),
            None,
        ))
        .add_instrument(Instrument::spot(
            ExchangeId::BinanceSpot,
            "binance_spot_eth_usdt",
            "ETHUSDT",
            Underlying::new(Asset::new("eth", "ETH"), Asset::new("usdt", "USDT")),
            None,
        ))
        // Exchange 1: Okx -> instruments 2,3 & assets 3,4,5 (distinct exchange names on purpose)
        .add_instrument(Instrument::spot(
            ExchangeId::Okx,
            "okx_spot_btc_usdt",
            "XBT-USDT-OKX",
            Underlying::new(Asset::new("btc", "XBT-OKX"), Asset::new("usdt", "USDT-OKX")),
            None,
        ))
        .add_instrument(Instrument::spot(
            ExchangeId::Okx,
            "okx_spot_sol_usdt",
            "SOL-USDT-OKX",
            Underlying::new(Asset::new("sol", "SOL-OKX"), Asset::new("usdt", "USDT-OKX")),
            None,
        ))
        .build()
}

#[test]
fn verif_demo_c04_second_exchange_instrument_lookups_use_global_index() {
    let instruments = indexed_instruments();
    let map = generate_execution_instrument_map(&instruments, ExchangeId::Okx).unwrap();

    let mut num_okx = 0;
    let mut problems = Vec::new();
    for keyed in instruments.instruments() {
        let actual = map.find_instrument_name_exchange(keyed.key);

        if keyed.value.exchange.value == ExchangeId::Okx {
            num_okx += 1;

            // index -> name
            if actual.as_ref().ok() != Some(&&keyed.value.name_exchange) {
                problems.push(format!(
                    "find_instrument_name_exchange({}) expected Ok({:?}), got {:?}",
                    keyed.key, keyed.value.name_exchange, actual
                ));
            }

            // name -> index round-trips
            assert_eq!(
                map.find_instrument_index(&keyed.value.name_exchange).ok(),
                Some(keyed.key)
            );
        } else if actual.is_ok() {
            // Index that belongs to another exchange must be rejected
            problems.push(format!(
                "find_instrument_name_exchange({}) expected Err for a {} instrument, got {:?}",
                keyed.key, keyed.value.exchange.value, actual
            ));
        }
    }
    assert!(problems.is_empty(), "{problems:#?}");
    assert_eq!(num_okx, 2);
    assert_eq!(map.exchange_instruments().count(), 2);
}

#[test]
fn verif_demo_c04_second_exchange_asset_lookups_use_global_index() {
    let instruments = indexed_instruments();
    let map = generate_execution_instrument_map(&instruments, ExchangeId::Okx).unwrap();

    let mut num_okx = 0;
    let mut problems = Vec::new();
    for keyed in instruments.assets() {
        let actual = map.find_asset_name_exchange(keyed.key);

        if keyed.value.exchange == ExchangeId::Okx {
            num_okx += 1;

            // index -> name
            if actual.as_ref().ok() != Some(&&keyed.value.asset.name_exchange) {
                problems.push(format!(
                    "find_asset_name_exchange({}) expected Ok({:?}), got {:?}",
                    keyed.key, keyed.value.asset.name_exchange, actual
                ));
            }

            // name -> index round-trips
            assert_eq!(
                map.find_asset_index(&keyed.value.asset.name_exchange).ok(),
                Some(keyed.key)
            );
        } else if actual.is_ok() {
            // Index that belongs to another exchange must be rejected
            problems.push(format!(
                "find_asset_name_exchange({}) expected Err for a {} asset, got {:?}",
                keyed.key, keyed.value.exchange, actual
            ));
        }
    }
    assert!(problems.is_empty(), "{problems:#?}");
    assert_eq!(num_okx, 3);
    assert_eq!(map.exchange_assets().count(), 3);
}

#[test]
fn verif_demo_c04_first_exchange_lookups_still_work() {
    // Control: the 1st exchange (global index == per-exchange position) works before & after.
    let instruments = indexed_instruments();
    let map = generate_execution_instrument_map(&instruments, ExchangeId::BinanceSpot).unwrap();

    for keyed in instruments.instruments() {
        if keyed.value.exchange.value == ExchangeId::BinanceSpot {
            assert_eq!(
                map.find_instrument_name_exchange(keyed.key).ok(),
                Some(&keyed.value.name_exchange)
            );
        }
    }
    for keyed in instruments.assets() {
        if keyed.value.exchange == ExchangeId::BinanceSpot {
            assert_eq!(
                map.find_asset_name_exchange(keyed.key).ok(),
                Some(&keyed.value.asset.name_exchange)
            );
        }
    }
}
