// PLACE AT: barter-execution/tests/verif_demo_c08.rs  (integration test of crate `barter-execution`)
//
// C08 demonstration: a MockExchange `Side::Sell` market order spends the BASE asset, so it must
// check & debit the base balance (not the quote balance), and an insufficient balance error must
// name the base asset.
use barter_execution::{
    UnindexedAccountSnapshot,
    balance::{AssetBalance, Balance},
    client::mock::MockExecutionConfig,
    error::{ApiError, OrderError},
    exchange::mock::MockExchange,
    order::{
        OrderKey, OrderKind, TimeInForce,
        id::{ClientOrderId, StrategyId},
        request::{OrderRequestOpen, RequestOpen},
    },
};
use barter_instrument::{
    Side, Underlying,
    asset::name::AssetNameExchange,
    exchange::ExchangeId,
    instrument::{Instrument, name::InstrumentNameExchange},
};
use chrono::{DateTime, Utc};
use rust_decimal::Decimal;
use tokio::sync::{broadcast, mpsc};

const EXCHANGE: ExchangeId = ExchangeId::Mock;
const INSTRUMENT: &str = "BTCUSDT";
const BASE: &str = "btc";
const QUOTE: &str = "usdt";

fn balance(asset: &str, amount: i64) -> AssetBalance<AssetNameExchange> {
    AssetBalance {
        asset: AssetNameExchange::from(asset),
        balance: Balance::new(Decimal::from(amount), Decimal::from(amount)),
        time_exchange: DateTime::<Utc>::MIN_UTC,
    }
}

fn mock_exchange(base: i64, quote: i64) -> MockExchange {
    // Channels are not used since `open_order` is called directly (no `run()` loop)
    let (_request_tx, request_rx) = mpsc::unbounded_channel();
    let (event_tx, _event_rx) = broadcast::channel(8);

    let instrument: Instrument<ExchangeId, AssetNameExchange> = Instrument::spot(
        EXCHANGE,
        "mock_spot_btc_usdt",
        INSTRUMENT,
        Underlying::new(
            AssetNameExchange::from(BASE),
            AssetNameExchange::from(QUOTE),
        ),
        None,
    );

    MockExchange::new(
        MockExecutionConfig {
            mocked_exchange: EXCHANGE,
            initial_state: UnindexedAccountSnapshot {
                exchange: EXCHANGE,
                balances: vec![balance(BASE, base), balance(QUOTE, quote)],
                instruments: vec![],
            },
            latency_ms: 0,
            fees_percent: Decimal::ZERO,
        },
        request_rx,
        event_tx,
        std::iter::once((InstrumentNameExchange::from(INSTRUMENT), instrument)).collect(),
    )
}

fn sell_request(price: i64, quantity: i64) -> OrderRequestOpen<ExchangeId, InstrumentNameExchange> {
    OrderRequestOpen {
        key: OrderKey {
            exchange: EXCHANGE,
            instrument: InstrumentNameExchange::from(INSTRUMENT),
            strategy: StrategyId::new("verif"),
            cid: ClientOrderId::new("cid"),
        },
        state: RequestOpen {
            side: Side::Sell,
            price: Decimal::from(price),
            quantity: Decimal::from(quantity),
            kind: OrderKind::Market,
            time_in_force: TimeInForce::ImmediateOrCancel,
        },
    }
}

fn balance_of(exchange: &MockExchange, asset: &str) -> Balance {
    exchange
        .account
        .balances()
        .find(|balance| balance.asset == AssetNameExchange::from(asset))
        .unwrap()
        .balance
}

#[test]
fn verif_demo_c08_sell_debits_base_balance() {
    // base = 2 btc, quote = 1000 usdt, fees = 0
    let mut exchange = mock_exchange(2, 1000);

    // Sell 1 btc @ 100 usdt
    let (response, notifications) = exchange.open_order(sell_request(100, 1));
    assert!(
        response.state.is_ok(),
        "sell rejected: {:?}",
        response.state
    );
    let notifications = notifications.expect("successful order has notifications");

    // Balance snapshot notification must be for the BASE asset, debited by the sold quantity
    let balance_snapshot = notifications.balance.0;
    assert_eq!(
        balance_snapshot.asset,
        AssetNameExchange::from(BASE),
        "Sell must debit the base asset"
    );
    assert_eq!(
        balance_snapshot.balance,
        Balance::new(Decimal::from(1), Decimal::from(1))
    );

    // Account state: base 2 -> 1, quote not debited
    assert_eq!(
        balance_of(&exchange, BASE),
        Balance::new(Decimal::from(1), Decimal::from(1)),
        "base balance must be 2 - 1 = 1"
    );
    assert_eq!(
        balance_of(&exchange, QUOTE),
        Balance::new(Decimal::from(1000), Decimal::from(1000)),
        "quote balance must not be debited by a Sell"
    );
}

#[test]
fn verif_demo_c08_sell_with_insufficient_base_is_rejected_naming_base() {
    // base = 2 btc, quote = 1000 usdt: selling 5 btc exceeds the base balance (but 5 < 1000 quote)
    let mut exchange = mock_exchange(2, 1000);

    let (response, notifications) = exchange.open_order(sell_request(100, 5));
    assert!(notifications.is_none(), "oversized Sell must not be filled");

    match response.state {
        Err(OrderError::Rejected(ApiError::BalanceInsufficient(asset, _))) => {
            assert_eq!(asset, AssetNameExchange::from(BASE))
        }
        other => panic!("expected BalanceInsufficient(base), got: {other:?}"),
    }

    // Nothing debited
    assert_eq!(
        balance_of(&exchange, BASE),
        Balance::new(Decimal::from(2), Decimal::from(2))
    );
    assert_eq!(
        balance_of(&exchange, QUOTE),
        Balance::new(Decimal::from(1000), Decimal::from(1000))
    );
}
