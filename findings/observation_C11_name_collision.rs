// PLACE AT: barter/tests/verif_demo_c11_name_collision.rs
// MODE: new-file
//
// C11 demonstration (last clause: "Engine state ... tables built from the collection hold, at each index, the entry of
// exactly the entity with that index"): two DISTINCT instruments - different exchanges - that share a user-chosen internal
// name both receive an index from IndexedInstruments, but the engine's InstrumentStates table is keyed by that name, so the
// second one replaces the first and every later position shifts.
use barter::engine::state::{
    instrument::{data::DefaultInstrumentMarketData, generate_indexed_instrument_states},
    order::Orders,
    position::PositionManager,
};
use barter_instrument::{
    Underlying, asset::Asset, exchange::ExchangeId, index::IndexedInstruments,
    instrument::{Instrument, InstrumentIndex},
};
use chrono::{DateTime, Utc};

#[test]
fn verif_demo_c11_instrument_states_hold_one_entry_per_index() {
    let instruments = IndexedInstruments::builder()
        .add_instrument(Instrument::spot(
            ExchangeId::BinanceSpot,
            "btc_usdt",
            "BTCUSDT",
            Underlying::new(Asset::new("btc", "BTC"), Asset::new("usdt", "USDT")),
            None,
        ))
        .add_instrument(Instrument::spot(
            ExchangeId::Kraken,
            "btc_usdt",
            "XBT/USDT",
            Underlying::new(Asset::new("btc", "XBT"), Asset::new("usdt", "USDT")),
            None,
        ))
        .add_instrument(Instrument::spot(
            ExchangeId::Kraken,
            "eth_usdt",
            "ETH/USDT",
            Underlying::new(Asset::new("eth", "ETH"), Asset::new("usdt", "USDT")),
            None,
        ))
        .build();
    assert_eq!(instruments.instruments().len(), 3, "three distinct instruments are indexed");

    let states = generate_indexed_instrument_states(
        &instruments,
        DateTime::<Utc>::MIN_UTC,
        PositionManager::default,
        Orders::default,
        DefaultInstrumentMarketData::default,
    );

    assert_eq!(
        states.0.len(),
        instruments.instruments().len(),
        "one InstrumentState per indexed instrument"
    );
    for keyed in instruments.instruments() {
        let state = states.instrument_index(&keyed.key);
        assert_eq!(state.key, keyed.key, "state at {:?} belongs to that index", keyed.key);
        assert_eq!(
            state.instrument.name_exchange, keyed.value.name_exchange,
            "state at {:?} is the state of the instrument with that index",
            keyed.key
        );
    }
    let _ = InstrumentIndex(0);
}
