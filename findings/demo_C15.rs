// PLACE AT: barter/tests/verif_demo_c15.rs  (integration test of crate `barter`)
//
// C15 demonstration: a MarketEvent processed via `EngineState::update_from_market` must refresh
// the open Position `pnl_unrealised` at the new market price.
use barter::engine::state::{
    EngineState, global::DefaultGlobalData, instrument::data::DefaultInstrumentMarketData,
};
use barter_data::{
    event::{DataKind, MarketEvent},
    subscription::trade::PublicTrade,
};
use barter_execution::{
    AccountEvent, AccountEventKind,
    order::id::{OrderId, StrategyId},
    trade::{AssetFees, Trade, TradeId},
};
use barter_instrument::{
    Side, Underlying,
    exchange::{ExchangeId, ExchangeIndex},
    index::IndexedInstruments,
    instrument::{Instrument, InstrumentIndex},
};
use chrono::{DateTime, TimeDelta, Utc};
use rust_decimal_macros::dec;

fn engine_state() -> EngineState<DefaultGlobalData, DefaultInstrumentMarketData> {
    let instruments = IndexedInstruments::builder()
        .add_instrument(Instrument::spot(
            ExchangeId::BinanceSpot,
            "binance_spot_btc_usdt",
            "BTCUSDT",
            Underlying::new("btc", "usdt"),
            None,
        ))
        .build();

    EngineState::builder(
        &instruments,
        DefaultGlobalData::default(),
        DefaultInstrumentMarketData::default,
    )
    .time_engine_start(DateTime::<Utc>::MIN_UTC)
    .build()
}

fn market_trade(time: DateTime<Utc>, price: f64) -> MarketEvent<InstrumentIndex, DataKind> {
    MarketEvent {
        time_exchange: time,
        time_received: time,
        exchange: ExchangeId::BinanceSpot,
        instrument: InstrumentIndex(0),
        kind: DataKind::Trade(PublicTrade {
            id: "public_trade".to_string(),
            price,
            amount: 1.0,
            side: Side::Buy,
        }),
    }
}

#[test]
fn verif_demo_c15_market_event_refreshes_position_pnl_unrealised() {
    let t0 = DateTime::<Utc>::MIN_UTC;
    let mut state = engine_state();

    // Market price is 100
    state.update_from_market(&market_trade(t0 + TimeDelta::seconds(1), 100.0));

    // Enter LONG position of 1 @ 100 (no fees) via an account Trade
    let exited = state.update_from_account(&AccountEvent {
        exchange: ExchangeIndex(0),
        kind: AccountEventKind::Trade(Trade {
            id: TradeId::new("trade"),
            order_id: OrderId::new("order"),
            instrument: InstrumentIndex(0),
            strategy: StrategyId::new("strategy"),
            time_exchange: t0 + TimeDelta::seconds(2),
            side: Side::Buy,
            price: dec!(100),
            quantity: dec!(1),
            fees: AssetFees::quote_fees(dec!(0)),
        }),
    });
    assert!(exited.is_none());

    let position = state
        .instruments
        .instrument_index(&InstrumentIndex(0))
        .position
        .current
        .as_ref()
        .expect("position is open");
    assert_eq!(position.side, Side::Buy);
    assert_eq!(position.quantity_abs, dec!(1));
    assert_eq!(position.price_entry_average, dec!(100));
    assert_eq!(position.pnl_unrealised, dec!(0));

    // Market moves to 150
    state.update_from_market(&market_trade(t0 + TimeDelta::seconds(3), 150.0));

    let instrument_state = state.instruments.instrument_index(&InstrumentIndex(0));

    // InstrumentData did see the new price...
    use barter::engine::state::instrument::data::InstrumentDataState;
    assert_eq!(instrument_state.data.price(), Some(dec!(150)));

    // ...so unrealised PnL must reflect it: 1 * (150 - 100) = 50
    let position = instrument_state.position.current.as_ref().unwrap();
    assert_eq!(
        position.pnl_unrealised,
        dec!(50),
        "pnl_unrealised must be refreshed by market data (LONG 1 @ 100, price now 150)"
    );
}
