// PLACE AT: barter-data/tests/verif_demo_c06_init_order.rs
// MODE: new-file
// NEEDS (demo only): `tokio-tungstenite = { workspace = true }` under [dev-dependencies] of barter-data/Cargo.toml
//
// C06 demonstration ("start early"): depth updates that arrive while the subscriptions are still being validated are
// buffered, the REST snapshot is fetched, and `MarketStream::init` replays the buffered updates through the sequencer - as
// Binance prescribes.  An update admitted that way covers the ids right after the snapshot, so a consumer must see it AFTER
// the snapshot.  The test drives the real `MarketStream::init` (real WebSocketSubscriber / WebSocketSubValidator / Binance spot
// L2 transformer and sequencer) against a local WebSocket server and applies what the stream yields to an `OrderBook`, as the
// book manager does.  The book must then hold every change up to the sequence the sequencer has admitted.
use async_trait::async_trait;
use barter_data::{
    ExchangeWsStream, Identifier, MarketStream, SnapshotFetcher,
    books::{Level, OrderBook},
    error::DataError,
    event::MarketEvent,
    exchange::{
        Connector,
        binance::{
            spot::{BinanceSpot, l2::BinanceSpotOrderBooksL2Transformer},
            subscription::BinanceSubResponse,
        },
        subscription::ExchangeSub,
    },
    subscriber::{WebSocketSubscriber, validator::WebSocketSubValidator},
    subscription::{
        Map, Subscription,
        book::{OrderBookEvent, OrderBooksL2},
    },
    transformer::ExchangeTransformer,
};
use barter_instrument::{
    exchange::ExchangeId,
    instrument::market_data::{MarketDataInstrument, kind::MarketDataInstrumentKind},
};
use barter_integration::{Transformer, error::SocketError, protocol::websocket::WsMessage};
use chrono::Utc;
use futures::{SinkExt, StreamExt};
use rust_decimal_macros::dec;
use serde::{Deserialize, Serialize};
use std::{future::Future, sync::OnceLock, time::Duration};
use tokio::sync::mpsc::UnboundedSender;

static PORT: OnceLock<u16> = OnceLock::new();
const SNAPSHOT_ID: u64 = 100;

// A Binance-spot-like connector whose only difference is the (local) url
#[derive(Clone, Default, Debug, Deserialize, Serialize)]
struct LocalBinance;
struct Chan(&'static str);
impl AsRef<str> for Chan {
    fn as_ref(&self) -> &str {
        self.0
    }
}
struct Market(String);
impl AsRef<str> for Market {
    fn as_ref(&self) -> &str {
        &self.0
    }
}
impl Connector for LocalBinance {
    const ID: ExchangeId = ExchangeId::BinanceSpot;
    type Channel = Chan;
    type Market = Market;
    type Subscriber = WebSocketSubscriber;
    type SubValidator = WebSocketSubValidator;
    type SubResponse = BinanceSubResponse;
    fn url() -> Result<url::Url, SocketError> {
        Ok(url::Url::parse(&format!("ws://127.0.0.1:{}", PORT.get().unwrap())).unwrap())
    }
    fn requests(subs: Vec<ExchangeSub<Self::Channel, Self::Market>>) -> Vec<WsMessage> {
        subs.iter().map(|_| WsMessage::text("{\"method\":\"SUBSCRIBE\"}")).collect()
    }
}
type Sub = Subscription<LocalBinance, MarketDataInstrument, OrderBooksL2>;
impl Identifier<Chan> for Sub {
    fn id(&self) -> Chan {
        Chan("@depth@100ms")
    }
}
impl Identifier<Market> for Sub {
    fn id(&self) -> Market {
        Market(format!("{}{}", self.instrument.base, self.instrument.quote).to_uppercase())
    }
}

// The real Binance spot L2 transformer (sequencer included), usable with the local connector
struct LocalTransformer(BinanceSpotOrderBooksL2Transformer<MarketDataInstrument>);
#[async_trait]
impl ExchangeTransformer<LocalBinance, MarketDataInstrument, OrderBooksL2> for LocalTransformer {
    async fn init(
        map: Map<MarketDataInstrument>,
        snapshots: &[MarketEvent<MarketDataInstrument, OrderBookEvent>],
        tx: UnboundedSender<WsMessage>,
    ) -> Result<Self, DataError> {
        <BinanceSpotOrderBooksL2Transformer<MarketDataInstrument> as ExchangeTransformer<
            BinanceSpot,
            MarketDataInstrument,
            OrderBooksL2,
        >>::init(map, snapshots, tx)
        .await
        .map(Self)
    }
}
impl Transformer for LocalTransformer {
    type Error = DataError;
    type Input = <BinanceSpotOrderBooksL2Transformer<MarketDataInstrument> as Transformer>::Input;
    type Output = MarketEvent<MarketDataInstrument, OrderBookEvent>;
    type OutputIter = Vec<Result<Self::Output, Self::Error>>;
    fn transform(&mut self, input: Self::Input) -> Self::OutputIter {
        self.0.transform(input)
    }
}

// REST snapshot as of SNAPSHOT_ID
struct LocalSnapshots;
impl SnapshotFetcher<LocalBinance, OrderBooksL2> for LocalSnapshots {
    fn fetch_snapshots<Instrument>(
        subscriptions: &[Subscription<LocalBinance, Instrument, OrderBooksL2>],
    ) -> impl Future<Output = Result<Vec<MarketEvent<Instrument::Key, OrderBookEvent>>, SocketError>> + Send
    where
        Instrument: barter_data::instrument::InstrumentData,
        Subscription<LocalBinance, Instrument, OrderBooksL2>: Identifier<Market>,
    {
        let events = subscriptions
            .iter()
            .map(|sub| MarketEvent {
                time_exchange: Utc::now(),
                time_received: Utc::now(),
                exchange: ExchangeId::BinanceSpot,
                instrument: sub.instrument.key().clone(),
                kind: OrderBookEvent::Snapshot(OrderBook::new(
                    SNAPSHOT_ID,
                    None,
                    vec![Level::new(dec!(100), dec!(1))],
                    vec![Level::new(dec!(101), dec!(1))],
                )),
            })
            .collect();
        std::future::ready(Ok(events))
    }
}

fn depth_update(symbol: &str, first: u64, last: u64, bid_price: &str) -> String {
    format!(
        "{{\"e\":\"depthUpdate\",\"E\":1671656397761,\"s\":\"{symbol}\",\"U\":{first},\"u\":{last},\"b\":[[\"{bid_price}\",\"5\"]],\"a\":[]}}"
    )
}

#[tokio::test]
async fn verif_demo_c06_admitted_buffered_update_is_not_lost_behind_the_snapshot() {
    let listener = tokio::net::TcpListener::bind("127.0.0.1:0").await.unwrap();
    PORT.set(listener.local_addr().unwrap().port()).unwrap();

    // Exchange side: confirm the 1st subscription, stream one depth update (ids 101..=105: the first update after the
    // snapshot), confirm the 2nd subscription; later stream the next update (106..=106)
    tokio::spawn(async move {
        let (tcp, _) = listener.accept().await.unwrap();
        let mut ws = tokio_tungstenite::accept_async(tcp).await.unwrap();
        let _ = ws.next().await;
        let _ = ws.next().await;
        let ok = "{\"result\":null,\"id\":1}";
        ws.send(tokio_tungstenite::tungstenite::Message::text(ok)).await.unwrap();
        ws.send(tokio_tungstenite::tungstenite::Message::text(depth_update("BTCUSDT", 101, 105, "99"))).await.unwrap();
        ws.send(tokio_tungstenite::tungstenite::Message::text(ok)).await.unwrap();
        tokio::time::sleep(Duration::from_millis(300)).await;
        ws.send(tokio_tungstenite::tungstenite::Message::text(depth_update("BTCUSDT", 106, 106, "98"))).await.unwrap();
        tokio::time::sleep(Duration::from_secs(5)).await;
    });

    let btc = MarketDataInstrument::from(("btc", "usdt", MarketDataInstrumentKind::Spot));
    let eth = MarketDataInstrument::from(("eth", "usdt", MarketDataInstrumentKind::Spot));
    let subs = vec![
        Subscription::new(LocalBinance, btc.clone(), OrderBooksL2),
        Subscription::new(LocalBinance, eth, OrderBooksL2),
    ];

    let mut stream = <ExchangeWsStream<LocalTransformer> as MarketStream<
        LocalBinance,
        MarketDataInstrument,
        OrderBooksL2,
    >>::init::<LocalSnapshots>(&subs)
    .await
    .expect("init");

    // Consume like the book manager: apply every BTCUSDT event to the local book
    let mut book = OrderBook::default();
    let mut seen = Vec::new();
    let mut admitted_up_to = SNAPSHOT_ID;
    while seen.len() < 4 {
        let event = tokio::time::timeout(Duration::from_secs(3), stream.next())
            .await
            .expect("stream stalled")
            .expect("stream ended")
            .expect("no sequence error was raised");
        if event.instrument != btc {
            seen.push(format!("other instrument"));
            continue;
        }
        match &event.kind {
            OrderBookEvent::Snapshot(snapshot) => seen.push(format!("snapshot@{}", snapshot.sequence)),
            OrderBookEvent::Update(update) => {
                seen.push(format!("update@{}", update.sequence));
                admitted_up_to = update.sequence;
            }
        }
        book.update(event.kind.clone());
    }

    // The sequencer admitted 101..=105 and 106 without any error, so the consumer was told nothing is wrong: the book must
    // equal the exchange's book as of 106 = snapshot + both updates
    assert_eq!(admitted_up_to, 106, "events seen: {seen:?}");
    let bids = book.bids().levels().iter().map(|l| (l.price, l.amount)).collect::<Vec<_>>();
    assert_eq!(
        bids,
        vec![(dec!(100), dec!(1)), (dec!(99), dec!(5)), (dec!(98), dec!(5))],
        "book does not hold the admitted update 101..=105 (bid 99 x 5); events in the order delivered: {seen:?}"
    );
}
