// PLACE AT: barter/tests/verif_demo_c16.rs  (integration test of crate `barter`)
//
// C16 demonstration: the instrument `TearSheet` win rate must be wins/total and the profit factor
// must be gross_profits/gross_losses.
use barter::{
    engine::state::position::{PositionExited, PositionManager},
    statistic::{summary::instrument::TearSheetGenerator, time::Daily},
    test_utils::{time_plus_days, trade},
};
use barter_instrument::{Side, asset::QuoteAsset, instrument::name::InstrumentNameInternal};
use chrono::{DateTime, Utc};
use rust_decimal::Decimal;
use rust_decimal_macros::dec;

/// Open a LONG position of 1 @ 100 and close it @ `price_exit` via the real Position logic.
fn closed_position(
    day: u64,
    price_exit: f64,
) -> PositionExited<QuoteAsset, InstrumentNameInternal> {
    let base = DateTime::<Utc>::MIN_UTC;
    let mut manager = PositionManager::<InstrumentNameInternal>::default();

    let none = manager.update_from_trade(&trade(
        time_plus_days(base, day),
        Side::Buy,
        100.0,
        1.0,
        0.0,
    ));
    assert!(none.is_none());

    manager
        .update_from_trade(&trade(
            time_plus_days(base, day + 1),
            Side::Sell,
            price_exit,
            1.0,
            0.0,
        ))
        .expect("position closed")
}

#[test]
fn verif_demo_c16_win_rate_and_profit_factor() {
    let mut generator = TearSheetGenerator::init(DateTime::<Utc>::MIN_UTC);

    // Returns: +0.1, +0.2, +0.3, -0.1
    for (index, price_exit) in [110.0, 120.0, 130.0, 90.0].into_iter().enumerate() {
        generator.update_from_position(&closed_position(index as u64 * 2, price_exit));
    }

    // Sanity check the inputs of the calculation
    assert_eq!(generator.pnl_returns.total.count, dec!(4));
    assert_eq!(generator.pnl_returns.losses.count, dec!(1));
    assert_eq!(generator.pnl_returns.total.sum, dec!(0.5));
    assert_eq!(generator.pnl_returns.losses.sum, dec!(-0.1));

    let tear_sheet = generator.generate(Decimal::ZERO, Daily);

    let win_rate = tear_sheet.win_rate.expect("has positions").value;
    let profit_factor = tear_sheet.profit_factor.expect("has positions").value;

    // Win rate: 3 wins out of 4 => 0.75
    // Profit factor: gross profits 0.6 / gross losses 0.1 => 6
    assert_eq!(
        (win_rate, profit_factor),
        (dec!(0.75), dec!(6)),
        "(win_rate, profit_factor) must be (wins / total, gross profits / gross losses)"
    );
}
