// PLACE AT: barter/tests/verif_demo_c15_opening_fill.rs
// MODE: new-file
//
// KNOWN FINDING (C15, not repaired): a position OPENED by a fill (`Position::from(&Trade)`, used for the first fill and for
// the remainder of a flip) starts with `pnl_unrealised = 0`, whereas the documented estimate evaluated at the fill price is
// `0 (no price move) - estimated exit fees = -entry_fee`.  Every other fill path (`Position::update_from_trade`) does
// re-evaluate the estimate at the fill price.  The existing unit test `test_position_update_from_trade` (TC7) pins the
// value 0 for the freshly opened position of a flip, so the behaviour cannot be changed without editing the suite.
// This test FAILS on the unmodified tree.
use barter::engine::state::position::{calculate_pnl_unrealised, Position};
use barter_execution::{
    order::id::{OrderId, StrategyId},
    trade::{AssetFees, Trade, TradeId},
};
use barter_instrument::{Side, asset::QuoteAsset, instrument::name::InstrumentNameInternal};
use chrono::{DateTime, Utc};
use rust_decimal_macros::dec;

#[test]
fn opening_fill_unrealised_pnl_is_the_estimate_at_the_fill_price() {
    let trade = Trade {
        id: TradeId::new("t"),
        order_id: OrderId::new("o"),
        instrument: InstrumentNameInternal::new("instrument"),
        strategy: StrategyId::new("s"),
        time_exchange: DateTime::<Utc>::MIN_UTC,
        side: Side::Buy,
        price: dec!(100),
        quantity: dec!(1),
        fees: AssetFees { asset: QuoteAsset, fees: dec!(10) },
    };
    let position = Position::from(&trade);
    let estimate_at_fill_price = calculate_pnl_unrealised(
        position.side,
        position.price_entry_average,
        position.quantity_abs,
        position.quantity_abs_max,
        position.fees_enter.fees,
        trade.price,
    );
    assert_eq!(estimate_at_fill_price, dec!(-10));
    assert_eq!(
        position.pnl_unrealised, estimate_at_fill_price,
        "after the opening fill the unrealised PnL must equal the documented estimate at the fill price"
    );
}
