// PLACE AT: barter/tests/verif_demo_c01.rs  (integration test of crate `barter`)
//
// C01 demonstration: an `Open` order snapshot whose remaining quantity is zero (ie/ the order is
// actually fully filled) must un-track an order that is currently tracked as `Open` or
// `CancelInFlight`.
use barter::engine::state::order::{Orders, manager::OrderManager};
use barter_execution::order::{
    Order, OrderKey, OrderKind, TimeInForce,
    id::{ClientOrderId, OrderId, StrategyId},
    state::{ActiveOrderState, CancelInFlight, Open, OrderState},
};
use barter_instrument::{Side, exchange::ExchangeId};
use barter_integration::snapshot::Snapshot;
use chrono::{DateTime, TimeDelta, Utc};
use rust_decimal::Decimal;
use rust_decimal_macros::dec;

fn order<State>(cid: ClientOrderId, state: State) -> Order<ExchangeId, u64, State> {
    Order {
        key: OrderKey {
            exchange: ExchangeId::Simulated,
            instrument: 1,
            strategy: StrategyId::unknown(),
            cid,
        },
        side: Side::Buy,
        price: dec!(1),
        quantity: dec!(10),
        kind: OrderKind::Limit,
        time_in_force: TimeInForce::GoodUntilCancelled { post_only: false },
        state,
    }
}

fn open(time_exchange: DateTime<Utc>, filled_quantity: Decimal) -> Open {
    Open {
        id: OrderId::new("order_id"),
        time_exchange,
        filled_quantity,
    }
}

fn tracked(cid: &ClientOrderId, state: ActiveOrderState) -> Orders<ExchangeId, u64> {
    Orders(std::iter::once((cid.clone(), order(cid.clone(), state))).collect())
}

#[test]
fn verif_demo_c01_open_then_open_with_zero_remaining_is_untracked() {
    let t0 = DateTime::<Utc>::MIN_UTC;
    let t1 = t0 + TimeDelta::seconds(1);
    let cid = ClientOrderId::new("cid");

    // Order quantity 10, tracked as Open with 3 filled
    let mut orders = tracked(&cid, ActiveOrderState::Open(open(t0, dec!(3))));
    assert_eq!(orders.orders().count(), 1);

    // Newer Open snapshot reports filled_quantity 10 => quantity_remaining == 0
    let snapshot: Snapshot<Order<ExchangeId, u64, OrderState<u64, u64>>> =
        Snapshot(order(cid.clone(), OrderState::active(open(t1, dec!(10)))));
    orders.update_from_order_snapshot(snapshot.as_ref());

    assert_eq!(
        orders.orders().count(),
        0,
        "fully filled Open order must no longer be tracked, but found: {:?}",
        orders
    );
}

#[test]
fn verif_demo_c01_open_then_out_of_sequence_open_with_zero_remaining_is_untracked() {
    let t0 = DateTime::<Utc>::MIN_UTC;
    let t1 = t0 + TimeDelta::seconds(1);
    let cid = ClientOrderId::new("cid");

    // Tracked Open has a MORE RECENT timestamp than the zero-remaining report
    let mut orders = tracked(&cid, ActiveOrderState::Open(open(t1, dec!(3))));

    let snapshot: Snapshot<Order<ExchangeId, u64, OrderState<u64, u64>>> =
        Snapshot(order(cid.clone(), OrderState::active(open(t0, dec!(10)))));
    orders.update_from_order_snapshot(snapshot.as_ref());

    assert_eq!(
        orders.orders().count(),
        0,
        "zero-remaining Open report un-tracks unconditionally, but found: {:?}",
        orders
    );
}

#[test]
fn verif_demo_c01_cancel_in_flight_then_open_with_zero_remaining_is_untracked() {
    let t0 = DateTime::<Utc>::MIN_UTC;
    let t1 = t0 + TimeDelta::seconds(1);
    let cid = ClientOrderId::new("cid");

    let mut orders = tracked(
        &cid,
        ActiveOrderState::CancelInFlight(CancelInFlight {
            order: Some(open(t0, dec!(3))),
        }),
    );
    assert_eq!(orders.orders().count(), 1);

    let snapshot: Snapshot<Order<ExchangeId, u64, OrderState<u64, u64>>> =
        Snapshot(order(cid.clone(), OrderState::active(open(t1, dec!(10)))));
    orders.update_from_order_snapshot(snapshot.as_ref());

    assert_eq!(
        orders.orders().count(),
        0,
        "fully filled order (CancelInFlight) must no longer be tracked, but found: {:?}",
        orders
    );
}

#[test]
fn verif_demo_c01_partial_fill_is_still_tracked() {
    // Control: a partially filled Open snapshot keeps the order tracked & updates it (unchanged
    // behaviour before & after the fix).
    let t0 = DateTime::<Utc>::MIN_UTC;
    let t1 = t0 + TimeDelta::seconds(1);
    let cid = ClientOrderId::new("cid");

    let mut orders = tracked(&cid, ActiveOrderState::Open(open(t0, dec!(3))));
    let snapshot: Snapshot<Order<ExchangeId, u64, OrderState<u64, u64>>> =
        Snapshot(order(cid.clone(), OrderState::active(open(t1, dec!(7)))));
    orders.update_from_order_snapshot(snapshot.as_ref());

    assert_eq!(
        orders,
        tracked(&cid, ActiveOrderState::Open(open(t1, dec!(7))))
    );
}
