"""P6: finite decision tables.  Evaluates *extracted guard formulas* (DNF over atoms) on the cells of a
finite abstract input space declared by a rule.  This evaluates formulas, not the program."""
import itertools

from sa.mir import render_atom


class UnknownAtom(Exception):
    def __init__(self, atom):
        super().__init__(render_atom(atom))
        self.atom = atom


def eval_guard(g, valuation):
    """g: DNF (frozenset of frozensets of atoms); valuation(atom) -> bool (raise UnknownAtom if the
    atom is outside the declared abstraction)"""
    for conj in g:
        ok = True
        for a in conj:
            v = valuation(a)
            if v is None:
                raise UnknownAtom(a)
            if not v:
                ok = False
                break
        if ok:
            return True
    return False


def cells(space):
    """space: dict name -> list of values; yields dict cells"""
    names = sorted(space)
    for combo in itertools.product(*[space[n] for n in names]):
        yield dict(zip(names, combo))
