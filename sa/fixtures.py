"""Positive / negative controls for the analysis primitives (DESIGN.md section 8).

The fixtures crate is compiled through the same driver; the assertions below must hold, otherwise the
checker itself is broken and every check exits 2 (checker error) instead of giving a verdict."""
import glob
import hashlib
import json
import os
import shutil
import subprocess
import uuid

from sa import atoms, mir
from sa import facts as factsmod

FIX = os.path.join(factsmod.VERIF, "fixtures")


def _hash():
    h = hashlib.sha256()
    for f in [os.path.join(FIX, "src", "lib.rs"), os.path.join(FIX, "src", "models.rs"), os.path.join(factsmod.VERIF, "sa", "inline.py"),
              os.path.join(factsmod.VERIF, "sa", "mir.py"), os.path.join(factsmod.VERIF, "sa", "atoms.py"),
              os.path.join(factsmod.VERIF, "sa", "fixtures.py"), factsmod.DRIVER]:
        try:
            with open(f, "rb") as fh:
                h.update(hashlib.sha256(fh.read()).digest())
        except FileNotFoundError:
            h.update(b"missing")
    return h.hexdigest()[:20]


def ensure():
    """run the controls once per (fixtures, core, driver) version; raise CheckerError on failure"""
    marker = os.path.join(factsmod.CACHE, "fixtures-ok-" + _hash())
    d = os.path.join(factsmod.CACHE, "facts-fixtures")
    if os.path.exists(marker) and glob.glob(os.path.join(d, "*.jsonl")):
        return json.load(open(marker))
    factsmod.build_driver()
    shutil.rmtree(d, ignore_errors=True)
    os.makedirs(d)
    target = os.path.join(factsmod.CACHE, "target-fixtures")
    for fp in glob.glob(os.path.join(target, "debug", ".fingerprint", "verif_fixtures-*")):
        shutil.rmtree(fp, ignore_errors=True)
    env = dict(os.environ)
    env.update({
        "LD_LIBRARY_PATH": os.path.join(factsmod._sysroot(), "lib") + ":" + env.get("LD_LIBRARY_PATH", ""),
        "RUSTFLAGS": "-Zmir-opt-level=0 -Awarnings", "RUSTC_WORKSPACE_WRAPPER": factsmod.DRIVER,
        "VERIF_FACTS_DIR": d, "VERIF_NONCE": uuid.uuid4().hex, "CARGO_TARGET_DIR": target, "CARGO_NET_OFFLINE": "true",
        "CARGO_INCREMENTAL": "0",
    })
    r = subprocess.run(["cargo", "+nightly", "check", "--offline", "--lib"], cwd=FIX, env=env, capture_output=True, text=True)
    if r.returncode != 0:
        raise factsmod.CheckerError("fixtures crate does not compile through the driver:\n" + r.stderr[-3000:])
    f = factsmod.Facts()
    f.load_dir(d)
    res = controls(f)
    bad = [k for k, v in res.items() if not v]
    if bad:
        raise factsmod.CheckerError("analysis-core controls failed (checker is broken, no verdict given): %s" % bad)
    for old in glob.glob(os.path.join(factsmod.CACHE, "fixtures-ok-*")):
        os.remove(old)
    with open(marker, "w") as fh:
        json.dump(res, fh)
    return res


_MODEL_FACTS = None


def model_facts():
    """facts of the fixtures crate (holds the std combinator models used by sa/inline.py)"""
    global _MODEL_FACTS
    if _MODEL_FACTS is None:
        ensure()
        f = factsmod.Facts()
        f.load_dir(os.path.join(factsmod.CACHE, "facts-fixtures"))
        _MODEL_FACTS = f
    return _MODEL_FACTS


def _time_guarded(facts, b, bi):
    def pred(kind, x):
        if kind != "cmp":
            return False
        op, a, bb, _c = x
        ra, rb = mir.render(a), mir.render(bb)
        return op in ("le", "lt") and ra.startswith("self.") and ra.endswith("time") and rb == "msg.time"
    return atoms.guard_implies(facts, b, b.guard(bi), pred)


def controls(facts):
    res = {}

    def body(name):
        ds = [d for d in facts.bodies if d.endswith("::" + name) or d.endswith("::" + name + "::{closure#0}")]
        return mir.get_body(facts, sorted(ds, key=len)[0])

    def stores_guarded(name):
        b = body(name)
        st = [s for s in b.stores() if mir.render(s[2]).startswith("self.")]
        return bool(st) and all(_time_guarded(facts, b, s[0]) for s in st)
    res["good_guarded_store"] = stores_guarded("good_guarded_store")
    res["bad_guarded_store_polarity"] = not stores_guarded("bad_guarded_store_polarity")
    res["bad_unguarded_store"] = not stores_guarded("bad_unguarded_store")
    res["good_is_none_or"] = stores_guarded("good_is_none_or")
    res["bad_is_none_or"] = not stores_guarded("bad_is_none_or")
    res["bad_partially_guarded"] = not stores_guarded("bad_partially_guarded")
    b = body("bad_partially_guarded")
    st = [s for s in b.stores()]
    res["dnf_two_disjuncts"] = len(st) == 1 and len(b.guard(st[0][0])) == 2

    def record_ok(name):
        b = body(name)
        sends = [(bi, tm) for bi, t, tm in b.real_calls() if mir.short(tm[1]) == "verif_fixtures::send"]
        recs = [(bi, tm) for bi, t, tm in b.real_calls() if mir.short(tm[1]) == "verif_fixtures::record"]
        if len(sends) != 1 or len(recs) != 1:
            return False
        sb, s = sends[0]
        rb, r = recs[0]
        return r[2][1] == mir.mk_proj(s, ("sent",)) and b.dominates(sb, rb) and b.postdominates(rb, sb)
    res["good_record_sent"] = record_ok("good_record_sent")
    res["bad_record_errors"] = not record_ok("bad_record_errors")
    res["bad_record_sometimes"] = not record_ok("bad_record_sometimes")

    def orient(term):
        p = 0
        t = term
        while t[0] == "call" and t[1].endswith("Ordering::reverse"):
            p ^= 1
            t = t[2][0]
        return p if t[0] == "call" and t[1].endswith("Ord::cmp") else None

    def comparators_agree(name):
        b = body(name)
        o = []
        for bi, t, tm in b.real_calls():
            if tm[1].endswith(("sort_by", "binary_search_by")):
                cb, _ = mir.closure_body(facts, tm[2][-1])
                o.append(orient(cb.return_term()))
        return len(o) == 2 and o[0] is not None and o[0] == o[1]
    res["good_comparators"] = comparators_agree("good_comparators")
    res["bad_comparators"] = not comparators_agree("bad_comparators")

    def after_await(name):
        ds = [d for d in facts.bodies if ("::%s::{closure#0}" % name) in d]
        b = mir.get_body(facts, ds[0])
        polls = [bi for bi, t, tm in b.real_calls() if tm[1].endswith("Future::poll")]
        nots = [bi for bi, t, tm in b.real_calls() if mir.short(tm[1]) == "verif_fixtures::notify"]
        return len(polls) == 1 and len(nots) == 1 and b.dominates(polls[0], nots[0]) and polls[0] != nots[0]
    res["good_after_await"] = after_await("good_after_await")
    res["bad_before_await"] = not after_await("bad_before_await")

    def once_per_iteration(name):
        b = body(name)
        nxt = [bi for bi, t, tm in b.real_calls() if tm[1].endswith("Iterator::next")]
        nots = [bi for bi, t, tm in b.real_calls() if mir.short(tm[1]) == "verif_fixtures::notify"]
        if len(nxt) != 1 or len(nots) != 1:
            return False
        # from the Some-arm successor of next(), can we come back to next() avoiding notify?
        starts = []
        for x in b.reachable:
            t = b.blocks[x]["term"]
            if t["t"] == "switch":
                for lab, y in b.succ[x]:
                    a = b.edge_atom(x, lab)
                    if a[0] == "is" and a[2] == frozenset(["Some"]) and a[1][0] == "call" and a[1][1].endswith("Iterator::next"):
                        starts.append(y)
        if len(starts) != 1:
            return False
        seen, stack = set(), [starts[0]]
        while stack:
            x = stack.pop()
            if x in seen or x == nots[0]:
                continue
            seen.add(x)
            if x == nxt[0]:
                return False
            stack.extend(y for _, y in b.succ[x] if y != mir.EXIT)
        return True
    res["good_once_per_iteration"] = once_per_iteration("good_once_per_iteration")
    res["bad_skips_some"] = not once_per_iteration("bad_skips_some")

    b = body("variants")
    gs = sorted(mir.render_guard(b.guard(s[0])) for s in b.stores())
    res["variant_guards"] = gs == ["(s is B)", "(s is C)"]
    # sa/inline.py: the same behaviour written in two idioms gives the same effects under the same guards
    from sa import inline

    def canon_guard(g):
        out = set()
        for conj in g:
            c2 = set()
            for a in conj:
                c = atoms.atom_cmp(a)
                c2.add(("cmp", c[0], mir.render(c[1]), mir.render(c[2])) if c else mir.render_atom(a))
            out.add(frozenset(c2))
        return frozenset(out)

    def inl_view(name):
        ds = [d for d in facts.bodies if d.endswith("inl::S::" + name)]
        inl = inline.Inliner(facts, facts, policy=lambda f, c, r: c.endswith("try_debit"))
        b = mir.Body(facts, inl.inline(facts.bodies[ds[0]]))
        eff = set()
        for bi, si, path, val, s_ in b.stores():
            eff.add(("store", mir.render(path), mir.render(val), canon_guard(b.guard(bi))))
        for bi, t, tm in b.real_calls():
            if b.mut_args(t):
                eff.add(("call", mir.render(tm), canon_guard(b.guard(bi))))
        ret = set((canon_guard(g), mir.render(t)) for g, t, bi in b.expanded_cases(0))
        return eff, ret, inl.log
    for a, b_ in (("find_combinator", "find_match"), ("each_for", "each_for_each"), ("debit_inline", "debit_helper"),
                  ("note_inspect", "note_if_let"), ("newer_combinator", "newer_match")):
        ea, ra, la = inl_view(a)
        eb, rb, lb = inl_view(b_)
        res["inline_pair_%s" % a] = ea == eb and ra == rb and bool(ea or ra) and bool(la or lb)
    # a DERIVED constructor (many fields, > 12 blocks) reads as the struct literal it builds (mir.accessor_summary)
    def ret_of(name):
        ds = [d for d in facts.bodies if d.endswith("inl::" + name)]
        return mir.render(mir.Body(facts, facts.bodies[ds[0]]).return_term())
    res["derived_ctor_is_literal"] = ret_of("wide_literal") == ret_of("wide_ctor") and ret_of("wide_ctor").startswith("Wide::Wide{")
    # a comparator handed to an adaptor reads the same as a closure literal and as a named function (rules/common.callable_return)
    from rules import common as _common

    class _Ctx:        # (a plain stand-in: the engine's own context needs these fixtures to be ready first)
        pass
    fctx = _Ctx()
    fctx.facts = facts
    fctx.ibody = lambda d: mir.Body(facts, facts.bodies[d])

    def comparator(name):
        ds = [d for d in facts.bodies if d.endswith("inl::" + name)]
        b = fctx.ibody(ds[0])
        cs = [tm for bi, t, tm in b.real_calls() if mir._strip_generics(tm[1]).endswith("sort_unstable_by")]
        r = _common.callable_return(fctx, cs[0][2][-1]) if len(cs) == 1 else None
        return mir.render(r) if r is not None else None
    res["callable_closure_eq_named_fn"] = comparator("sort_closure") is not None and comparator("sort_closure") == comparator("sort_named")
    return res
