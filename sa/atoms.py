"""Normalisation of guard atoms into semantic facts (comparisons, variant tests, predicates)."""
from sa import mir
from sa.mir import render

CMP_CALLS = {
    "std::cmp::PartialOrd::le": "le", "std::cmp::PartialOrd::lt": "lt",
    "std::cmp::PartialOrd::ge": "ge", "std::cmp::PartialOrd::gt": "gt",
    "std::cmp::PartialEq::eq": "eq", "std::cmp::PartialEq::ne": "ne",
}
CMP_BIN = {"Le": "le", "Lt": "lt", "Ge": "ge", "Gt": "gt", "Eq": "eq", "Ne": "ne"}
NEG = {"le": "gt", "lt": "ge", "ge": "lt", "gt": "le", "eq": "ne", "ne": "eq"}


def _cmp_name(name):
    """operator of a (possibly workspace-resolved) PartialEq / PartialOrd method"""
    if name in CMP_CALLS:
        return CMP_CALLS[name]
    last = name.rsplit("::", 1)[-1]
    if last in ("eq", "ne") and " as std::cmp::PartialEq" in name:
        return last
    if last in ("lt", "le", "gt", "ge") and " as std::cmp::PartialOrd" in name:
        return last
    return None


def cmp_term(t):
    """(op, a, b) if the boolean term t is a comparison"""
    if t[0] == "call" and len(t[2]) == 2 and _cmp_name(t[1]):
        return _cmp_name(t[1]), t[2][0], t[2][1]
    if t[0] == "bin" and t[1] in CMP_BIN:
        return CMP_BIN[t[1]], t[2], t[3]
    if t[0] == "un" and t[1] == "Not":
        c = cmp_term(t[2])
        if c:
            return NEG[c[0]], c[1], c[2]
    return None


def canon_cmp(op, a, b):
    """canonical form using only le / lt / eq / ne with the sense 'a op b'"""
    if op == "ge":
        return "le", b, a
    if op == "gt":
        return "lt", b, a
    return op, a, b


def atom_cmp(atom):
    """comparison that is known to HOLD when the atom holds, canonicalised; or None"""
    if atom[0] != "bool":
        return None
    c = cmp_term(atom[1])
    if not c:
        return None
    op, a, b = c
    if not atom[2]:
        op = NEG[op]
    return canon_cmp(op, a, b)


def closure_pred(facts, closure_term, param_terms):
    """boolean return term of a predicate closure, rewritten into the parent's vocabulary.
    param_terms: terms to substitute for the closure's explicit parameters ($1, $2, ...)."""
    b, m = mir.closure_body(facts, closure_term)
    if b is None:
        return None
    rt = b.return_term()

    def f(t):
        if t[0] == "upvar":
            return m.get(t[1])
        if t[0] == "cparam":
            i = t[1] - 1
            if 0 <= i < len(param_terms):
                return param_terms[i]
        return None
    return mir.subst(rt, f)


def atom_facts(facts, atom):
    """list of comparison facts implied by the atom, each (op, a, b, condition) where condition is
    None or a human-readable side condition (e.g. 'when X is Some')"""
    out = []
    c = atom_cmp(atom)
    if c:
        out.append((c[0], c[1], c[2], None))
        return out
    if atom[0] == "bool" and atom[1][0] == "call":
        t = atom[1]
        name = t[1]
        # Option::is_none_or(opt, pred): true => opt is None or pred(opt.Some.0)
        if name.endswith("::is_none_or") and atom[2] and len(t[2]) == 2 and t[2][1][0] == "agg":
            inner = mir.mk_proj(t[2][0], ("as:Some", "0"))
            p = closure_pred(facts, t[2][1], [inner])
            if p is not None:
                c = cmp_term(p)
                if c:
                    cc = canon_cmp(*c)
                    out.append((cc[0], cc[1], cc[2], "unless %s is None" % render(t[2][0])))
        # Option::is_some_and(opt, pred): true => pred(opt.Some.0)
        if name.endswith("::is_some_and") and atom[2] and len(t[2]) == 2 and t[2][1][0] == "agg":
            inner = mir.mk_proj(t[2][0], ("as:Some", "0"))
            p = closure_pred(facts, t[2][1], [inner])
            if p is not None:
                c = cmp_term(p)
                if c:
                    cc = canon_cmp(*c)
                    out.append((cc[0], cc[1], cc[2], None))
    return out


def guard_implies(facts, body, guard, pred):
    """every disjunct of the DNF contains an atom (or implied fact) satisfying pred(kind, payload).
    pred receives ('cmp', (op,a,b,cond)) for comparison facts and ('atom', atom) for raw atoms."""
    for conj in guard:
        ok = False
        for atom in conj:
            if pred("atom", atom):
                ok = True
                break
            for fct in atom_facts(facts, atom):
                if pred("cmp", fct):
                    ok = True
                    break
            if ok:
                break
        if not ok:
            return False
    return True


def ends_with(term, *suffix):
    """term is a projection chain ending in the given element names"""
    if term[0] != "proj":
        return False
    return term[2][-len(suffix):] == tuple(suffix)


def root_of(term):
    while term[0] == "proj":
        term = term[1]
    return term


def path_elems(term):
    return term[2] if term[0] == "proj" else ()


def mentions_param(term, name):
    return mir.is_mentioned(term, lambda t: t[0] == "param" and t[2] == name)


def mentions_call(term, suffix):
    return mir.is_mentioned(term, lambda t: t[0] == "call" and t[1].endswith(suffix))
