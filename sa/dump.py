"""Pretty-printer for exported MIR bodies (debug aid)."""
import sys
from sa.facts import get_facts


def pl(p):
    s = "_%d" % p["l"]
    for e in p["p"]:
        if "d" in e: s = "(*%s)" % s
        elif "f" in e: s += "." + e["n"]
        elif "v" in e: s = "(%s as %s)" % (s, e["v"])
        elif "ix" in e: s += "[_%d]" % e["ix"]
        elif "cix" in e: s += "[%s%d]" % ("-" if e["end"] else "", e["cix"])
        else: s += str(e)
    return s


def op(o):
    if "c" in o: return pl(o["c"])
    if "m" in o: return "move " + pl(o["m"])
    k = o["k"]
    if "fn" in k: return "fn " + k["fn"]["def"]
    return "const " + k.get("s", "?")


def rv(r):
    t = r["r"]
    if t == "use": return op(r["o"])
    if t == "ref": return ("&mut " if r["mut"] else ("&fake " if r["fake"] else "&")) + pl(r["p"])
    if t == "bin": return "%s(%s, %s)" % (r["op"], op(r["a"]), op(r["b"]))
    if t == "un": return "%s(%s)" % (r["op"], op(r["a"]))
    if t == "discr": return "discr(%s) [%s]" % (pl(r["p"]), r["adt"])
    if t == "cast": return "%s as %s (%s)" % (op(r["o"]), r["ty"], r["kind"])
    if t == "agg":
        k = r["kind"]
        name = k.get("adt", k.get("def", k["k"]))
        if k["k"] == "adt": name += "::" + k["variant"]
        return "%s{%s}" % (name, ", ".join(op(o) for o in r["ops"]))
    return str(r)


def fn(f):
    if "indirect" in f: return "indirect " + op(f["indirect"])
    s = f["def"]
    if f.get("res"): s += "  => " + f["res"]
    return s


def dump(b, show_exp=True):
    print("fn", b["def"], b["kind"], b["span"], "argc", b["argc"])
    for i, l in enumerate(b["locals"]):
        if l["name"] or i <= b["argc"]:
            print("   _%d: %s  %s" % (i, l["ty"], l["name"] or ""))
    for blk in b["blocks"]:
        if blk["cleanup"]: continue
        print(" bb%d:" % blk["i"])
        for s in blk["stmts"]:
            e = (" <%s>" % s["exp"]) if s.get("exp") and show_exp else ""
            if "lhs" in s:
                print("    %s = %s   @%s%s" % (pl(s["lhs"]), rv(s["rv"]), s["sp"].split("/")[-1], e))
            else:
                print("    setdiscr %s %d" % (pl(s["setdiscr"]), s["vi"]))
        t = blk["term"]
        e = (" <%s>" % t["exp"]) if t.get("exp") and show_exp else ""
        k = t["t"]
        if k == "call":
            print("    %s = call %s(%s) -> bb%s   @%s%s" % (pl(t["dest"]), fn(t["f"]), ", ".join(op(a) for a in t["args"]), t["to"], t["sp"].split("/")[-1], e))
        elif k == "switch":
            print("    switch %s %s else bb%d%s" % (op(t["d"]), t["targets"], t["otherwise"], e))
        elif k in ("goto", "drop", "false_edge", "false_unwind", "assert", "yield"):
            extra = ""
            if k == "false_edge": extra = " imag bb%d" % t["imaginary"]
            if k == "drop": extra = " " + pl(t["p"])
            if k == "yield": extra = " " + op(t["v"])
            if k == "assert": extra = " %s==%s" % (op(t["cond"]), t["expected"])
            print("    %s -> bb%s%s%s" % (k, t["to"], extra, e))
        else:
            print("    " + k)


if __name__ == "__main__":
    facts = get_facts()
    pat = sys.argv[1]
    for d, b in facts.bodies.items():
        if pat in d:
            if len(sys.argv) > 2 and sys.argv[2] == "-l":
                print(d, b["kind"], b["span"], len(b["blocks"]))
            else:
                dump(b)
                print()
