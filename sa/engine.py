"""Rule-pack runner: contexts, instances, floors, violations, evidence, known findings."""
import hashlib
import importlib
import json
import os
import sys
import time
import traceback

from sa import facts as factsmod
from sa import mir

VERIF = factsmod.VERIF
EVDIR = os.environ.get("VERIF_EVIDENCE_DIR") or os.path.join(VERIF, "evidence")


class AnchorMissing(Exception):
    pass


_IBODIES = {}


class Ctx:
    def __init__(self, prop, facts, tier, facts_all=None):
        self.prop = prop
        self.facts = facts
        self.facts_all = facts_all
        self.tier = tier
        self.instances = []      # dicts
        self.violations = []     # dicts
        self.rule = None
        self.rule_desc = {}
        self.functions = set()
        self.not_decided = []
        self.assumptions = []
        self.explanation = ""
        self.extra = {}

    # ------------------------------------------------------------ anchors
    def find(self, name=None, self_adt=None, trait=None, path=None, kind=None, self_ty_contains=None,
             allow_many=False, optional=False, facts=None):
        facts = facts or self.facts
        out = []
        for d, r in facts.bodies.items():
            if path is not None:
                if d != path:
                    continue
            else:
                if name is not None and r.get("name") != name:
                    continue
                if self_adt is not None and r.get("impl_self_adt") != self_adt:
                    continue
                if trait is not None:
                    if trait == "":
                        if r.get("impl_trait"):
                            continue
                    elif r.get("impl_trait") != trait and r.get("in_trait") != trait:
                        continue
                if self_ty_contains is not None and self_ty_contains not in (r.get("impl_self") or ""):
                    continue
                if kind is not None and r["kind"] != kind:
                    continue
                if r["kind"] not in ("fn", "assoc_fn") and kind is None:
                    continue
            out.append(d)
        desc = "name=%s self=%s trait=%s path=%s" % (name, self_adt, trait, path)
        if not out:
            if optional:
                return [] if allow_many else None
            raise AnchorMissing("anchor not found: " + desc)
        if allow_many:
            return sorted(out)
        if len(out) > 1:
            raise AnchorMissing("anchor ambiguous (%d matches): %s" % (len(out), desc))
        return out[0]

    def body(self, defn, facts=None):
        b = mir.get_body(facts or self.facts, defn)
        if b is None:
            raise AnchorMissing("no MIR body for " + defn)
        self.functions.add(defn)
        return b

    def closure_provider(self, facts, defn):
        if facts is not self.facts or defn not in self.facts.bodies:
            return mir.get_body(facts, defn)
        return self.ibody(defn)

    def ibody(self, defn, **kw):
        """the body with std combinator models, closure calls and un-named private helpers inlined (sa/inline.py):
        the idiom-independent view of the function"""
        from sa import fixtures, inline
        key = ("inl", id(self.facts), defn, tuple(sorted(kw.items())))
        if key not in _IBODIES:
            rec = self.facts.bodies.get(defn)
            if rec is None:
                raise AnchorMissing("no MIR body for " + defn)
            inl = inline.Inliner(self.facts, fixtures.model_facts(), **kw)
            rec2 = inl.inline(rec)
            _IBODIES[key] = (mir.Body(self.facts, rec2), inl.log)
        b, log = _IBODIES[key]
        self.functions.add(defn)
        for _, _, desc in log:
            if desc.startswith(("helper:", "closure:")):
                self.functions.add(desc.split(":", 1)[1])
        return b

    def fibody(self, **kw):
        return self.ibody(self.find(**kw))

    def fbody(self, **kw):
        return self.body(self.find(**kw))

    def closures_of(self, defn):
        pre = defn + "::{closure#"
        return sorted(d for d in self.facts.bodies if d.startswith(pre))

    # ------------------------------------------------------------ instances
    def check(self, anchor, cond, what, sites=None, got=None, want=None, key=None):
        """one rule instance: `what` must hold at `anchor`"""
        inst = {
            "rule": self.rule, "anchor": anchor, "what": what, "ok": bool(cond),
            "sites": sites or [],
        }
        if got is not None:
            inst["got"] = got
        if want is not None:
            inst["want"] = want
        self.instances.append(inst)
        if not cond:
            k = "%s/%s/%s" % (self.prop, self.rule, anchor)
            if key:
                k += "/" + key
            v = dict(inst)
            v["key"] = k
            self.violations.append(v)
        return bool(cond)

    def floor(self, what, count, minimum):
        self.check("floor:" + what, count >= minimum,
                   "rule must match at least %d sites (%s); matched %d" % (minimum, what, count),
                   got=count, want=">=%d" % minimum)

    def site(self, body, bi, si=None):
        blk = body.blocks[bi]
        if si is not None and si < len(blk["stmts"]):
            return blk["stmts"][si]["sp"]
        return blk["term"]["sp"]


def load_known():
    findings = {}
    fixed = []
    p = os.path.join(VERIF, "known_findings.txt")
    if os.path.exists(p):
        for line in open(p):
            line = line.strip()
            if not line or line.startswith("#"):
                continue
            if line.startswith("finding:"):
                rest = line[len("finding:"):].strip()
                parts = dict(x.split("=", 1) for x in rest.split(" ")[:2])
                desc = " ".join(rest.split(" ")[2:])
                findings[parts["key"]] = (parts["property"], desc)
            elif line.startswith("fixed:"):
                fixed.append(line)
    return findings, fixed


def selftest(prop):
    """thorough tier: rule-sensitivity self-test.  Applies the catalogued source mutations for this property to
    SCRATCH COPIES of /repo's current tree (never /repo itself), re-runs the pack on each and records whether the
    expected rule reported it.  Informational only: it never changes the verdict (on an edited tree a mutation's
    anchor may legitimately not apply)."""
    import subprocess
    import tempfile
    import shutil
    out = {"applied": 0, "detected": 0, "not_applicable": 0, "missed": [], "results": []}
    try:
        sys.path.insert(0, VERIF)
        from mutations.catalogue import MUTATIONS
        from mutations import run as mrun
    except Exception as e:  # pragma: no cover
        out["error"] = "catalogue unavailable: %s" % e
        return out
    # fixed per-property path: cargo's scratch target dir keys its units on the workspace path
    scratch = os.path.join(tempfile.gettempdir(), "barter-verif-selftest-%s" % prop)
    shutil.rmtree(scratch, ignore_errors=True)
    os.makedirs(scratch, exist_ok=True)
    try:
        for m in MUTATIONS:
            if m["property"] != prop or m["expect"] == "none":
                continue
            repo = os.path.join(scratch, "repo")
            mrun.copy_repo(repo)
            err = mrun.apply(repo, m)
            if err:
                out["not_applicable"] += 1
                out["results"].append({"id": m["id"], "status": "n/a", "why": err})
                continue
            out["applied"] += 1
            env = dict(os.environ, VERIF_REPO=repo, VERIF_EVIDENCE_DIR=os.path.join(repo, ".evidence"), VERIF_TIER="quick",
                       VERIF_NO_SELFTEST="1")
            r = subprocess.run([os.path.join(VERIF, "check"), prop, "--tier", "quick"], env=env, capture_output=True, text=True)
            import re
            rules = sorted(set(re.findall(r"^  rule (\S+) @", r.stdout, re.M)))
            hit = r.returncode == 1 and any(("%s:%s" % (prop, x)).startswith(m["expect"]) for x in rules)
            if hit:
                out["detected"] += 1
            else:
                out["missed"].append(m["id"])
            out["results"].append({"id": m["id"], "desc": m["desc"], "expected_rule": m["expect"], "reported_rules": rules,
                                   "exit": r.returncode, "status": "detected" if hit else "missed"})
        # the two corpora written by independent sub-agents (DESIGN.md 11.7 / 11.8): confirmed breaking changes of this
        # property must be reported by this pack, behaviour-preserving refactorings of its mechanism and the catalogue's
        # neutral edits must leave it silent
        import json as _json
        import re as _re
        out["seeded"] = {"applied": 0, "detected": 0, "missed": [], "not_applicable": 0}
        out["neutral"] = {"applied": 0, "silent": 0, "false_alarms": [], "not_applicable": 0}

        def run_on(repo):
            env = dict(os.environ, VERIF_REPO=repo, VERIF_EVIDENCE_DIR=os.path.join(repo, ".evidence"), VERIF_TIER="quick", VERIF_NO_SELFTEST="1")
            r = subprocess.run([os.path.join(VERIF, "check"), prop, "--tier", "quick"], env=env, capture_output=True, text=True)
            return r.returncode, sorted(set(_re.findall(r"^  rule (\S+) @", r.stdout, _re.M)))
        jobs = []
        sd = os.path.join(VERIF, "seeded")
        for i in sorted(os.listdir(sd)) if os.path.isdir(sd) else []:
            mp = os.path.join(sd, i, "meta.json")
            if os.path.exists(mp) and _json.load(open(mp)).get("breaks_property") == prop:
                jobs.append(("seeded", i, os.path.join(sd, i, "patch.diff")))
        nd = os.path.join(VERIF, "neutral")
        for i in sorted(os.listdir(nd)) if os.path.isdir(nd) else []:
            if i.startswith(prop) and os.path.exists(os.path.join(nd, i, "patch.diff")):
                jobs.append(("neutral", i, os.path.join(nd, i, "patch.diff")))
        for kind, i, patch in jobs:
            repo = os.path.join(scratch, "repo")
            mrun.copy_repo(repo)
            a = subprocess.run(["patch", "-p1", "-s", "-i", patch], cwd=repo, capture_output=True, text=True)
            if a.returncode != 0:
                out[kind]["not_applicable"] += 1
                continue
            out[kind]["applied"] += 1
            rc, rules = run_on(repo)
            if kind == "seeded":
                if rc == 1:
                    out[kind]["detected"] += 1
                else:
                    out[kind]["missed"].append(i)
            else:
                if rc == 0:
                    out[kind]["silent"] += 1
                else:
                    out[kind]["false_alarms"].append({"id": i, "rules": rules})
        for m in MUTATIONS:
            if m["property"] != prop or m["expect"] != "none":
                continue
            repo = os.path.join(scratch, "repo")
            mrun.copy_repo(repo)
            if mrun.apply(repo, m):
                out["neutral"]["not_applicable"] += 1
                continue
            out["neutral"]["applied"] += 1
            rc, rules = run_on(repo)
            if rc == 0:
                out["neutral"]["silent"] += 1
            else:
                out["neutral"]["false_alarms"].append({"id": m["id"], "rules": rules})
    finally:
        shutil.rmtree(scratch, ignore_errors=True)
    return out


def run_pack(prop, tier="quick", replay=None, seed=0):
    t0 = time.time()
    try:
        from sa import fixtures
        controls = fixtures.ensure()
        facts = factsmod.get_facts(all_targets=False)
        facts_all = None
    except factsmod.CheckerError as e:
        print("CHECKER-ERROR: %s" % e, file=sys.stderr)
        return 2
    ctx = Ctx(prop, facts, tier, facts_all)
    mir.CLOSURE_BODY_PROVIDER = ctx.closure_provider
    pack = importlib.import_module("rules." + prop)
    ctx.explanation = pack.EXPLANATION
    ctx.not_decided = getattr(pack, "NOT_DECIDED", [])
    ctx.assumptions = getattr(pack, "ASSUMPTIONS", [])
    for rid, desc, fn in pack.RULES:
        ctx.rule = rid
        ctx.rule_desc[rid] = desc
        try:
            fn(ctx)
        except AnchorMissing as e:
            ctx.check("anchor", False, "mechanism not found (fail closed): %s" % e, key="missing")
        except factsmod.CheckerError:
            raise
        except Exception as e:  # fail closed: a rule that cannot be evaluated is not a pass
            tb = traceback.format_exc(limit=6)
            ctx.check("evaluation", False,
                      "rule could not be evaluated on this tree (fail closed): %s: %s" % (type(e).__name__, e),
                      got=tb, key="unevaluable")
    ctx.rule = None
    findings, fixed = load_known()
    new = []
    known = []
    for v in ctx.violations:
        if v["key"] in findings and findings[v["key"]][0] == prop:
            known.append(v)
        else:
            new.append(v)
    wall = time.time() - t0
    # evidence
    by_rule = {}
    for inst in ctx.instances:
        by_rule.setdefault(inst["rule"], []).append(inst)
    samples = []
    for rid, insts in by_rule.items():
        samples.append({
            "rule": rid, "description": ctx.rule_desc.get(rid, ""),
            "instances": len(insts), "failed": sum(1 for i in insts if not i["ok"]),
            "examples": [{k: i[k] for k in ("anchor", "what", "ok", "sites", "got", "want") if k in i}
                         for i in insts[:40]],
        })
    distinct = len(set((i["rule"], i["anchor"]) for i in ctx.instances if i["sites"] or i["ok"]))
    n_sites = sum(len(i["sites"]) for i in ctx.instances)
    ev = {
        "property_id": prop,
        "tier": tier,
        "seed": seed,
        "level": "other",
        "wall_s": round(wall, 3),
        "violations": len(new),
        "assumptions": ctx.assumptions,
        "coverage": {
            "explanation": ctx.explanation,
            "evaluations": len(ctx.instances),
            "distinct_nontrivial": distinct,
            "rule": "one evaluation = one rule instance (rule id x resolved anchor) decided on the MIR exported "
                    "from /repo's current tree; non-trivial = the instance matched at least one real site or "
                    "obligation; distinct = distinct (rule, anchor) pairs",
            "samples": samples,
            "functions_analysed": sorted(ctx.functions),
            "call_sites_and_stores_matched": n_sites,
            "rules": ctx.rule_desc,
            "not_decided": ctx.not_decided,
            "facts_hash": facts.hash,
            "bodies_in_facts": len(facts.bodies),
            "all_targets_facts": facts_all.hash if facts_all else None,
            "known_findings_suppressed": [v["key"] for v in known],
            "analysis_core_controls": {"passed": sum(1 for v in controls.values() if v), "total": len(controls),
                                       "what": "GOOD/BAD fixture functions compiled through the same driver (fixtures/src/lib.rs); "
                                               "a failing control aborts with a checker error instead of a verdict"},
            "technique": "static analysis: rule instances over compiler MIR (control dependence, provenance, "
                         "who-may tables); nothing of barter-rs is executed",
        },
    }
    ev["coverage"].update(ctx.extra)
    if tier == "thorough" and not replay and not os.environ.get("VERIF_NO_SELFTEST"):
        ev["coverage"]["selftest"] = selftest(prop)
        ev["wall_s"] = round(time.time() - t0, 3)
    os.makedirs(EVDIR, exist_ok=True)
    with open(os.path.join(EVDIR, prop + ".json"), "w") as fh:
        json.dump(ev, fh, indent=1, default=str)
    # output
    print("%s tier=%s facts=%s instances=%d sites=%d violations=%d known=%d wall=%.1fs" %
          (prop, tier, facts.hash, len(ctx.instances), n_sites, len(new), len(known), wall))
    for v in known:
        print("KNOWN-FINDING: property=%s %s (%s)" % (prop, v["key"], findings[v["key"]][1]))
    rc = 0
    if replay:
        want = json.load(open(replay))["key"]
        hit = [v for v in ctx.violations if v["key"] == want]
        if hit:
            print("replay: %s still fails: %s" % (want, hit[0]["what"]))
            print("VIOLATION property=%s replay=%s" % (prop, replay))
            return 1
        print("replay: %s no longer fails" % want)
        return 0
    if new:
        vd = os.path.join(EVDIR, "violations")
        os.makedirs(vd, exist_ok=True)
        for v in new:
            h = hashlib.sha1(v["key"].encode()).hexdigest()[:10]
            p = os.path.join(vd, "%s-%s.json" % (prop, h))
            with open(p, "w") as fh:
                json.dump(v, fh, indent=1, default=str)
            print("  rule %s @ %s: %s" % (v["rule"], v["anchor"], v["what"]))
            for s in v.get("sites", [])[:6]:
                print("      site %s" % (s,))
            if "got" in v:
                print("      got:  %s" % (str(v["got"])[:600],))
            if "want" in v:
                print("      want: %s" % (str(v["want"])[:600],))
            print("VIOLATION property=%s replay=%s" % (prop, os.path.relpath(p, VERIF)))
        rc = 1
    return rc
