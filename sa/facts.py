"""Extraction of MIR facts from /repo's current working tree + loading.

Extraction = `cargo +nightly check --offline --workspace --lib` with the rustc_private driver as
RUSTC_WORKSPACE_WRAPPER.  Nothing of barter-rs is executed.
"""
import fcntl
import glob
import hashlib
import json
import os
import pickle
import shutil
import subprocess
import sys
import time
import uuid

VERIF = os.path.dirname(os.path.dirname(os.path.abspath(__file__)))
REPO = os.environ.get("VERIF_REPO", "/repo")
CACHE = os.path.join(VERIF, ".cache")
DRIVER = os.path.join(VERIF, "driver", "target", "release", "barter-facts-driver")
FACTS_VERSION = "6"
MEMBERS = ["barter", "barter-data", "barter-execution", "barter-instrument", "barter-integration"]
CRATES = ["barter", "barter_data", "barter_execution", "barter_instrument", "barter_integration"]


class CheckerError(Exception):
    """Infrastructure failure (exit 2) - never a property verdict."""


def _sysroot():
    return subprocess.check_output(["rustc", "+nightly", "--print", "sysroot"], text=True).strip()


def repo_hash(repo=REPO):
    h = hashlib.sha256()
    h.update(FACTS_VERSION.encode())
    try:
        st = os.stat(DRIVER)
        h.update(f"{st.st_size}:{int(st.st_mtime)}".encode())
    except FileNotFoundError:
        pass
    files = []
    for root, dirs, fnames in os.walk(repo):
        dirs[:] = [d for d in dirs if d not in ("target", ".git")]
        for f in fnames:
            if f.endswith(".rs") or f in ("Cargo.toml", "Cargo.lock", "rust-toolchain.toml", "config.toml"):
                files.append(os.path.join(root, f))
    files.sort()
    for f in files:
        h.update(os.path.relpath(f, repo).encode())
        with open(f, "rb") as fh:
            h.update(hashlib.sha256(fh.read()).digest())
    return h.hexdigest()[:24]


def build_driver():
    if os.path.exists(DRIVER):
        src = os.path.join(VERIF, "driver", "src", "main.rs")
        if os.stat(src).st_mtime <= os.stat(DRIVER).st_mtime:
            return
    env = dict(os.environ, CARGO_NET_OFFLINE="true")
    r = subprocess.run(["cargo", "build", "--release", "--offline"], cwd=os.path.join(VERIF, "driver"),
                       env=env, capture_output=True, text=True)
    if r.returncode != 0:
        raise CheckerError("driver build failed:\n" + r.stderr[-4000:])


def _extract(repo, facts_dir, all_targets=False):
    build_driver()
    target = os.environ.get("VERIF_TARGET_DIR") or \
        os.path.join(CACHE, ("target-all" if all_targets else "target") + ("" if repo == "/repo" else "-scratch"))
    os.makedirs(target, exist_ok=True)
    # force re-run of the wrapper on the workspace members
    for prof in glob.glob(os.path.join(target, "debug", ".fingerprint")):
        for m in MEMBERS:
            for d in glob.glob(os.path.join(prof, m + "-*")):
                base = os.path.basename(d)
                # "barter-<hash>" must not match "barter-data-<hash>"
                rest = base[len(m) + 1:]
                if "-" in rest:
                    continue
                shutil.rmtree(d, ignore_errors=True)
    if os.path.exists(facts_dir):
        shutil.rmtree(facts_dir)
    os.makedirs(facts_dir)
    nonce = uuid.uuid4().hex
    env = dict(os.environ)
    env.update({
        "LD_LIBRARY_PATH": os.path.join(_sysroot(), "lib") + ":" + env.get("LD_LIBRARY_PATH", ""),
        "RUSTFLAGS": "-Zmir-opt-level=0 -Awarnings",
        "RUSTC_WORKSPACE_WRAPPER": DRIVER,
        "VERIF_FACTS_DIR": facts_dir,
        "VERIF_NONCE": nonce,
        "CARGO_TARGET_DIR": target,
        "CARGO_NET_OFFLINE": "true",
        "CARGO_INCREMENTAL": "0",
    })
    cmd = ["cargo", "+nightly", "check", "--offline", "--workspace"]
    cmd += ["--all-targets"] if all_targets else ["--lib"]
    t0 = time.time()
    r = subprocess.run(cmd, cwd=repo, env=env, capture_output=True, text=True)
    if r.returncode != 0:
        raise CheckerError("cargo check of %s failed (the tree does not compile?):\n%s" % (repo, r.stderr[-6000:]))
    # assert freshness
    seen = set()
    for f in glob.glob(os.path.join(facts_dir, "*.jsonl")):
        with open(f) as fh:
            head = json.loads(fh.readline())
        if head.get("nonce") != nonce:
            raise CheckerError("stale facts file " + f)
        if not head.get("test_harness"):
            seen.add(head["name"])
    missing = [c for c in CRATES if c not in seen]
    if missing:
        raise CheckerError("no facts for crates %s (wrapper skipped?)\n%s" % (missing, r.stderr[-2000:]))
    return time.time() - t0


class Facts:
    """All records of one extraction, indexed."""

    def __init__(self):
        self.bodies = {}     # def -> body dict
        self.adts = {}       # def -> adt dict
        self.impls = []      # impl dicts
        self.crates = {}
        self.hash = None
        self.extract_s = 0.0
        self.all_targets = False

    def load_dir(self, d):
        for f in sorted(glob.glob(os.path.join(d, "*.jsonl"))):
            with open(f) as fh:
                for line in fh:
                    rec = json.loads(line)
                    k = rec["k"]
                    if k == "body":
                        key = rec["def"]
                        if rec.get("test"):
                            rec["_test"] = True
                        # def_path_str is not unique (e.g. several serde `__DeserializeWith` helper impls inside
                        # one derive): keep every body, disambiguating later ones with a #n suffix
                        if key in self.bodies:
                            n = 2
                            while "%s#%d" % (key, n) in self.bodies:
                                n += 1
                            key = "%s#%d" % (key, n)
                            rec["def"] = key
                        rec["_file"] = os.path.basename(f)
                        self.bodies[key] = rec
                    elif k == "adt":
                        self.adts[rec["def"]] = rec
                    elif k == "impl":
                        self.impls.append(rec)
                    elif k == "crate":
                        self.crates[os.path.basename(f)] = rec
                    elif k == "end":
                        self.crates[os.path.basename(f)].update(rec)


def get_facts(all_targets=False, repo=REPO, force=False):
    """Return Facts for the current working tree of `repo` (extracting if the tree changed)."""
    os.makedirs(CACHE, exist_ok=True)
    # one extraction at a time per build directory (parallel corpus workers bring their own VERIF_TARGET_DIR)
    td = os.environ.get("VERIF_TARGET_DIR")
    lock = open((td.rstrip("/") + ".lock") if td else os.path.join(CACHE, "lock"), "w")
    fcntl.flock(lock, fcntl.LOCK_EX)
    try:
        h = repo_hash(repo)
        tag = ("all-" if all_targets else "lib-") + h
        facts_dir = os.path.join(CACHE, "facts", tag)
        pkl = os.path.join(facts_dir, "facts.pkl")
        ok = os.path.join(facts_dir, "OK")
        extract_s = 0.0
        if force or not os.path.exists(ok):
            # keep only the most recent fact sets (disk)
            # (other processes prune concurrently: a directory may vanish between the listing and the stat)
            def _mtime(p):
                try:
                    return os.stat(p).st_mtime
                except OSError:
                    return 0.0
            olds = sorted(glob.glob(os.path.join(CACHE, "facts", "*")), key=_mtime)
            for old in olds[:-12]:
                m = _mtime(old)
                if m and time.time() - m > 1800:
                    shutil.rmtree(old, ignore_errors=True)
            extract_s = _extract(repo, facts_dir, all_targets)
            # the tree must not have changed while we extracted
            if repo_hash(repo) != h:
                raise CheckerError("/repo changed during extraction")
            with open(ok, "w") as fh:
                fh.write("%f" % extract_s)
        if os.path.exists(pkl):
            try:
                with open(pkl, "rb") as fh:
                    facts = pickle.load(fh)
                facts.extract_s = extract_s
                return facts
            except Exception:
                pass
        facts = Facts()
        facts.load_dir(facts_dir)
        facts.hash = h
        facts.extract_s = extract_s
        facts.all_targets = all_targets
        with open(pkl + ".tmp", "wb") as fh:
            pickle.dump(facts, fh, protocol=pickle.HIGHEST_PROTOCOL)
        os.replace(pkl + ".tmp", pkl)
        return facts
    finally:
        fcntl.flock(lock, fcntl.LOCK_UN)
        lock.close()


if __name__ == "__main__":
    t = time.time()
    f = get_facts(all_targets="--all" in sys.argv, force="--force" in sys.argv)
    print("facts", f.hash, "bodies", len(f.bodies), "adts", len(f.adts), "impls", len(f.impls),
          "extract_s %.1f" % f.extract_s, "total_s %.1f" % (time.time() - t))
