"""MIR-level inlining: present one control-flow graph for behaviour written in different idioms.

`inline_rec(facts, rec, ...)` returns a copy of a body record in which
  * calls to std combinators that have a reference model (fixtures/src/models.rs: Option::map / ok_or_else / inspect /
    is_none_or / filter ..., Result::map / map_err ..., Poll::map, bool::then_some, Iterator::for_each / all / any) are
    replaced by the model's MIR,
  * calls of a closure value (FnOnce::call_once / FnMut::call_mut / Fn::call) whose closure aggregate is found by
    chasing the operand are replaced by the closure's own MIR; a function item passed where a closure is expected
    becomes a direct call,
  * calls to small private workspace helpers that no rule names (policy) are replaced by the helper's MIR.
So `x.ok_or_else(|| e)` and `match x { Some(v) => Ok(v), None => Err(e) }`, a `for` loop and `.for_each(..)`, a block of
code and the same block extracted into a private helper all give the same blocks / stores / guards to the rules.
Nothing is executed: this is a syntactic transformation of the compiler's MIR (as an optimiser's inliner does)."""
import copy
import os
import re

from sa import mir

MODELS = {
    "std::option::Option::<T>::map": "option_map",
    "std::option::Option::<T>::inspect": "option_inspect",
    "std::option::Option::<T>::ok_or": "option_ok_or",
    "std::option::Option::<T>::ok_or_else": "option_ok_or_else",
    "std::option::Option::<T>::unwrap_or": "option_unwrap_or",
    "std::option::Option::<T>::unwrap_or_else": "option_unwrap_or_else",
    "std::option::Option::<T>::is_some_and": "option_is_some_and",
    "std::option::Option::<T>::is_none_or": "option_is_none_or",
    "std::option::Option::<T>::filter": "option_filter",
    "std::option::Option::<T>::and_then": "option_and_then",
    "std::option::Option::<T>::or": "option_or",
    "std::option::Option::<T>::or_else": "option_or_else",
    "std::option::Option::<T>::map_or": "option_map_or",
    "std::option::Option::<T>::map_or_else": "option_map_or_else",
    "std::result::Result::<T, E>::unwrap_or": "result_unwrap_or",
    "std::result::Result::<T, E>::is_ok_and": "result_is_ok_and",
    "std::mem::replace": "mem_replace",
    "core::bool::<impl bool>::then_some": "bool_then_some",
    "core::bool::<impl bool>::then": "bool_then",
    "std::result::Result::<T, E>::map": "result_map",
    "std::result::Result::<T, E>::map_err": "result_map_err",
    "std::result::Result::<T, E>::ok": "result_ok",
    "std::result::Result::<T, E>::and_then": "result_and_then",
    "std::result::Result::<T, E>::unwrap_or_else": "result_unwrap_or_else",
    "std::task::Poll::<T>::map": "poll_map",
    "std::iter::Iterator::for_each": "iterator_for_each",
    "std::iter::Iterator::all": "iterator_all",
    "std::iter::Iterator::any": "iterator_any",
}
MODEL_PREFIX = "verif_fixtures::models::"
CLOSURE_CALLS = ("std::ops::FnOnce::call_once", "std::ops::FnMut::call_mut", "std::ops::Fn::call")

_VOCAB = None


def rule_vocabulary():
    """identifiers that appear anywhere in the rule packs: a helper a rule names is part of the rule's vocabulary and is
    therefore NOT inlined away; a freshly extracted helper has a name no rule knows and is inlined"""
    global _VOCAB
    if _VOCAB is None:
        d = os.path.join(os.path.dirname(os.path.dirname(os.path.abspath(__file__))), "rules")
        txt = []
        for fn in sorted(os.listdir(d)):
            if fn.endswith(".py") or fn.endswith(".json"):
                with open(os.path.join(d, fn)) as fh:
                    txt.append(fh.read())
        td = os.path.join(d, "tables")
        if os.path.isdir(td):
            for fn in sorted(os.listdir(td)):
                if fn == "params.json":
                    continue        # the frozen parameter names list EVERY function: not a statement about what rules name
                with open(os.path.join(td, fn)) as fh:
                    txt.append(fh.read())
        # a function is "named by a rule" when its name is used in path form (`Type::name`, `module::name`) or as the
        # name= / path= argument of an anchor lookup - not when the same English word merely occurs in a description
        body = "\n".join(txt)
        # (only the LAST segment of a path names a function; `metric::win_rate::WinRate` does not name a function `win_rate`)
        _VOCAB = set(re.findall(r"::([A-Za-z_][A-Za-z0-9_]*)(?![A-Za-z0-9_]|::)", body)) | set(re.findall(r"name=\"([A-Za-z_][A-Za-z0-9_]*)\"", body)) | \
            set(re.findall(r"[\"'(]([a-z_][a-z0-9_]*)\(", body))
    return _VOCAB


_VOCAB_BROAD = None


def rule_vocabulary_broad():
    """for PUBLIC callees the test is stricter: any lower-case identifier that occurs as a complete string literal in a rule
    pack (`for fn in ("validate_first_update", ..)`, table keys) counts as named - a public function is part of the API the
    rules were written against, so it is inlined only when certainly no rule looks for it"""
    global _VOCAB_BROAD
    if _VOCAB_BROAD is None:
        d = os.path.join(os.path.dirname(os.path.dirname(os.path.abspath(__file__))), "rules")
        body = []
        for fn in sorted(os.listdir(d)):
            if fn.endswith(".py"):
                with open(os.path.join(d, fn)) as fh:
                    body.append(fh.read())
        # (only compound names: a bare word such as "asset" / "key" / "value" is almost always a field or role name in a pack,
        #  and a freshly extracted accessor is likely to be called just that)
        _VOCAB_BROAD = rule_vocabulary() | set(w for w in re.findall(r"[\"']([a-z_][a-z0-9_]*)[\"']", "\n".join(body)) if "_" in w)
    return _VOCAB_BROAD


def _last_segment(path):
    p = mir._strip_generics(path)
    p = re.sub(r"::\{closure#\d+\}", "", p)
    return p.rsplit("::", 1)[-1].strip("<>")


def default_policy(facts, callee, rec):
    """inline a workspace callee iff no rule names it and it is small: private helpers up to 60 blocks, public ones only when
    they are leaf-sized (an extracted predicate / accessor such as `Balance::is_sufficient`, `MarketEvent::is_more_recent_than`)"""
    if rec.get("test") or rec.get("kind") not in ("fn", "assoc_fn"):
        return False
    if rec.get("vis") == "pub":
        return len(rec["blocks"]) <= 12 and _last_segment(callee) not in rule_vocabulary_broad()
    if len(rec["blocks"]) > 60:
        return False
    return _last_segment(callee) not in rule_vocabulary()


def _is_place(x):
    return isinstance(x, dict) and set(x.keys()) == {"l", "p"} and isinstance(x["p"], list)


def _remap(node, lo, bo, po=0):
    """deep copy of a MIR json node with locals shifted by lo, block indices by bo and promoted-constant indices by po"""
    if isinstance(node, list):
        return [_remap(x, lo, bo, po) for x in node]
    if not isinstance(node, dict):
        return node
    if _is_place(node):
        out = {"l": node["l"] + lo, "p": []}
        for e in node["p"]:
            e2 = dict(e)
            if "ix" in e2 and isinstance(e2["ix"], int):
                e2["ix"] = e2["ix"] + lo
            out["p"].append(e2)
        return out
    out = {}
    for k, v in node.items():
        if k in ("to", "otherwise", "imaginary", "drop") and isinstance(v, int) and "t" in node:
            out[k] = v + bo
        elif k == "targets" and "t" in node:
            out[k] = [[val, b + bo] for val, b in v]
        elif k == "promoted" and isinstance(v, int) and not isinstance(v, bool):
            out[k] = v + po
        else:
            out[k] = _remap(v, lo, bo, po)
    return out


def _single_def(rec, l):
    """the unique whole-local assignment of l in the non-cleanup blocks: ('stmt', stmt) / ('call', term) / None"""
    found = []
    for b in rec["blocks"]:
        if b.get("cleanup"):
            continue
        for s in b["stmts"]:
            lhs = s.get("lhs")
            if lhs and lhs["l"] == l and not lhs["p"]:
                found.append(("stmt", s))
        t = b.get("term")
        if t and t["t"] == "call" and t["dest"]["l"] == l and not t["dest"]["p"]:
            found.append(("call", t))
    return found[0] if len(found) == 1 else None


def _chase(rec, operand, depth=0):
    """what a call operand denotes: ('closure', def, agg stmt) | ('fnitem', fn json) | ('tuple', ops) | None"""
    if depth > 12:
        return None
    if "k" in operand:
        k = operand["k"]
        if isinstance(k, dict) and "fn" in k:
            return ("fnitem", k["fn"])
        return None
    p = operand.get("m") or operand.get("c")
    if p is None or any("d" not in e for e in p["p"]):
        return None
    d = _single_def(rec, p["l"])
    if d is None or d[0] != "stmt":
        return None
    rv = d[1]["rv"]
    if rv["r"] == "use":
        return _chase(rec, rv["o"], depth + 1)
    if rv["r"] in ("ref", "rawptr"):
        return _chase(rec, {"c": rv["p"]}, depth + 1)
    if rv["r"] == "cast" and rv["kind"].startswith("PointerCoercion"):
        return _chase(rec, rv["o"], depth + 1)
    if rv["r"] == "agg":
        k = rv["kind"]
        if k["k"] == "closure":
            return ("closure", k["def"], rv["ops"])
        if k["k"] == "tuple":
            return ("tuple", rv["ops"])
    return None


class Inliner:
    def __init__(self, facts, model_facts=None, policy=default_policy, models=True, closures=True, helpers=True):
        self.facts = facts
        self.model_facts = model_facts
        self.policy = policy
        self.models = models and model_facts is not None
        self.closures = closures
        self.helpers = helpers
        self.log = []

    def _lookup(self, path):
        r = self.facts.bodies.get(path)
        if r is None and self.model_facts is not None:
            r = self.model_facts.bodies.get(path)
        return r

    def _target(self, rec, t, stack):
        """(callee rec, bound args (list of operand json), description) for an inlinable call terminator, else None"""
        f = t["f"]
        if "def" not in f:
            return None
        name = f["def"]
        if self.models and name in MODELS:
            r = self.model_facts.bodies.get(MODEL_PREFIX + MODELS[name])
            if r is not None and len(r.get("locals", [])) > r["argc"] and r["argc"] == len(t["args"]):
                return r, list(t["args"]), "model:" + MODELS[name]
        if self.closures and name in CLOSURE_CALLS and len(t["args"]) == 2:
            what = _chase(rec, t["args"][0])
            tup = _chase(rec, t["args"][1])
            if what and what[0] == "closure" and tup and tup[0] == "tuple":
                r = self._lookup(what[1])
                if r is not None and what[1] not in stack and r["argc"] == 1 + len(tup[1]):
                    return r, [t["args"][0]] + [copy.deepcopy(o) for o in tup[1]], "closure:" + what[1]
            return None
        if self.helpers:
            callee = mir.callee_path(f)
            r = self.facts.bodies.get(callee)
            if r is not None and callee not in stack and r["argc"] == len(t["args"]) and self.policy(self.facts, callee, r):
                return r, list(t["args"]), "helper:" + callee
        return None

    def _fnitem_call(self, rec, t):
        """call_once(fn item, (args..)) -> direct call of the fn item"""
        f = t["f"]
        if f.get("def") not in CLOSURE_CALLS or len(t["args"]) != 2:
            return None
        what = _chase(rec, t["args"][0])
        tup = _chase(rec, t["args"][1])
        if what and what[0] == "fnitem" and tup and tup[0] == "tuple":
            t2 = dict(t)
            t2["f"] = copy.deepcopy(what[1])
            t2["args"] = [copy.deepcopy(o) for o in tup[1]]
            return t2
        return None

    def inline(self, rec, rounds=6, max_growth=1500):
        rec = copy.deepcopy(rec)
        max_blocks = len(rec["blocks"]) + max_growth
        origin = {i: (rec["def"],) for i in range(len(rec["blocks"]))}   # block -> inline stack (for recursion cut)
        for _ in range(rounds):
            changed = False
            for bi in range(len(rec["blocks"])):
                b = rec["blocks"][bi]
                t = b.get("term")
                if b.get("cleanup") or not t or t["t"] != "call":
                    continue
                if len(rec["blocks"]) > max_blocks:
                    break
                direct = self._fnitem_call(rec, t)
                if direct is not None:
                    b["term"] = direct
                    t = direct
                    changed = True
                tg = self._target(rec, t, origin[bi])
                if tg is None:
                    continue
                callee, args, desc = tg
                lo = len(rec["locals"])
                bo = len(rec["blocks"])
                rec["locals"].extend(copy.deepcopy(callee["locals"]))
                po = len(rec.setdefault("promoted", []) or [])
                if rec.get("promoted") is None:
                    rec["promoted"] = []
                rec["promoted"].extend(copy.deepcopy(callee.get("promoted") or []))
                # bind parameters
                for i, a in enumerate(args):
                    b["stmts"].append({"lhs": {"l": lo + 1 + i, "p": []}, "rv": {"r": "use", "o": copy.deepcopy(a)},
                                       "sp": t.get("sp"), "exp": t.get("exp"), "inl": desc})
                dest, to = t["dest"], t.get("to")
                for cb in callee["blocks"]:
                    nb = _remap(cb, lo, bo, po)
                    nb["i"] = cb["i"] + bo
                    nt = nb.get("term")
                    if nt and nt["t"] == "return" and not nb.get("cleanup"):
                        nb["stmts"].append({"lhs": copy.deepcopy(dest), "rv": {"r": "use", "o": {"m": {"l": lo, "p": []}}},
                                            "sp": nt.get("sp"), "exp": nt.get("exp"), "inl": desc})
                        nb["term"] = {"t": "goto", "to": to, "sp": nt.get("sp"), "exp": nt.get("exp")} if to is not None else \
                            {"t": "unreachable", "sp": nt.get("sp"), "exp": nt.get("exp")}
                    rec["blocks"].append(nb)
                    origin[nb["i"]] = origin[bi] + (callee["def"],)
                b["term"] = {"t": "goto", "to": bo, "sp": t.get("sp"), "exp": t.get("exp")}
                self.log.append((rec["def"], bi, desc))
                changed = True
            if not changed:
                break
        rec["inlined"] = [d for _, _, d in self.log]
        return rec
