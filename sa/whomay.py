"""P5: whole-workspace who-may tables, computed on the raw fact records."""
from sa.mir import callee_path

_CACHE = {}


def _tables(facts):
    key = id(facts)
    if key in _CACHE:
        return _CACHE[key]
    callers = {}      # callee -> [(caller def, block, span)]
    writers = {}      # (adt, field) -> [(def, block, kind, span)]   kind: assign | borrow_mut | construct
    constructs = {}   # (adt, variant) -> [(def, block, span)]
    fnitems = {}      # fn def used as a value -> [(def, block)]
    for d, rec in facts.bodies.items():
        for blk in rec["blocks"]:
            if blk["cleanup"]:
                continue
            bi = blk["i"]
            for s in blk["stmts"]:
                if "lhs" not in s:
                    continue
                lhs = s["lhs"]
                # direct / nested field assignment: every field elem on the lhs path is written (partially)
                fl = [e for e in lhs["p"] if "f" in e]
                if fl:
                    last = fl[-1]
                    writers.setdefault((last["a"], last["n"]), []).append((d, bi, "assign", s["sp"]))
                    for e in fl[:-1]:
                        writers.setdefault((e["a"], e["n"]), []).append((d, bi, "assign_sub", s["sp"]))
                rv = s["rv"]
                if rv["r"] == "ref" and rv["mut"]:
                    for e in rv["p"]["p"]:
                        if "f" in e:
                            writers.setdefault((e["a"], e["n"]), []).append((d, bi, "borrow_mut", s["sp"]))
                elif rv["r"] == "agg" and rv["kind"]["k"] == "adt":
                    k = rv["kind"]
                    constructs.setdefault((k["adt"], k["variant"]), []).append((d, bi, s["sp"]))
                    for f in k["fields"]:
                        writers.setdefault((k["adt"], f), []).append((d, bi, "construct", s["sp"]))
                # function items used as values
                for o in _operands(rv):
                    if "k" in o and "fn" in o["k"]:
                        fnitems.setdefault(callee_path(o["k"]["fn"]), []).append((d, bi))
            t = blk["term"]
            if t and t["t"] == "call":
                c = callee_path(t["f"])
                if c:
                    callers.setdefault(c, []).append((d, bi, t["sp"]))
                    tm = t["f"].get("def")
                    if tm and tm != c:
                        callers.setdefault(tm, []).append((d, bi, t["sp"]))
                for o in t["args"]:
                    if "k" in o and "fn" in o["k"]:
                        fnitems.setdefault(callee_path(o["k"]["fn"]), []).append((d, bi))
    _CACHE[key] = (callers, writers, constructs, fnitems)
    return _CACHE[key]


def _operands(rv):
    r = rv["r"]
    if r in ("use", "cast", "repeat"):
        return [rv["o"]]
    if r == "bin":
        return [rv["a"], rv["b"]]
    if r == "un":
        return [rv["a"]]
    if r == "agg":
        return rv["ops"]
    return []


def callers_of(facts, callee):
    return _tables(facts)[0].get(callee, [])


def callers_matching(facts, pred):
    out = []
    for c, lst in _tables(facts)[0].items():
        if pred(c):
            out.extend((c,) + x for x in lst)
    return out


def writers_of(facts, adt, field):
    return _tables(facts)[1].get((adt, field), [])


def constructors_of(facts, adt, variant=None):
    t = _tables(facts)[2]
    if variant is not None:
        return t.get((adt, variant), [])
    out = []
    for (a, v), lst in t.items():
        if a == adt:
            out.extend(lst)
    return out


def fnitem_uses(facts, fn):
    return _tables(facts)[3].get(fn, [])


def owner_fn(d):
    """strip ::{closure#n} suffixes: the enclosing named function"""
    while True:
        i = d.rfind("::{closure#")
        if i < 0:
            return d
        d = d[:i]
