"""P7: leaf formulas.  Turns a provenance term built from Decimal operator calls into a sympy expression
(over the function's parameters) so that algebraically equal rewrites compare equal.  Only used on single
expressions; multi-statement updates are never symbolically executed."""
import sympy

from sa import mir

OPS = {
    "std::ops::Mul::mul": lambda a, b: a * b,
    "std::ops::Add::add": lambda a, b: a + b,
    "std::ops::Sub::sub": lambda a, b: a - b,
    "std::ops::Div::div": lambda a, b: a / b,
}
BIN = {"Mul": lambda a, b: a * b, "Add": lambda a, b: a + b, "Sub": lambda a, b: a - b, "Div": lambda a, b: a / b}


class NotAFormula(Exception):
    pass


def to_sympy(facts, term, inline_depth=3, sym=None):
    """sym(term) -> sympy symbol for a leaf; default: rendered access path"""
    def leaf(t):
        if sym:
            s = sym(t)
            if s is not None:
                return s
        return sympy.Symbol(mir.render(t).replace("as:", ""))

    def go(t, depth):
        h = t[0]
        if h == "call":
            name = t[1]
            if name in OPS and len(t[2]) == 2:
                return OPS[name](go(t[2][0], depth), go(t[2][1], depth))
            if name == "std::ops::Neg::neg":
                return -go(t[2][0], depth)
            if name.endswith("Decimal::abs"):
                return sympy.Abs(go(t[2][0], depth))
            if len(t[2]) == 1 and name.rsplit("::", 1)[-1] in ("from", "into") and ("convert::From" in name or "convert::Into" in name):
                # lossless numeric conversion (u64::from(u8), Decimal::from(n)): the identity for the algebra
                return go(t[2][0], depth)
            if name.endswith("::min") and len(t[2]) == 2:
                return sympy.Min(go(t[2][0], depth), go(t[2][1], depth))
            if name.endswith("::max") and len(t[2]) == 2:
                return sympy.Max(go(t[2][0], depth), go(t[2][1], depth))
            # workspace leaf function: inline its (single) return expression
            if depth > 0 and name in facts.bodies:
                b = mir.get_body(facts, name)
                cases = return_cases(b)
                if len(cases) == 1:
                    inner = mir.subst_params(cases[0][1], t[2])
                    return go(inner, depth - 1)
            raise NotAFormula("call " + name)
        if h == "bin" and t[1] in BIN:
            return BIN[t[1]](go(t[2], depth), go(t[3], depth))
        if h == "bin" and t[1].endswith("WithOverflow"):
            return BIN[t[1][:-len("WithOverflow")]](go(t[2], depth), go(t[3], depth))
        if h == "proj" and t[2] and t[2][-1] == "0" and t[1][0] == "bin":
            # (checked op).0
            return go(t[1], depth)
        if h == "const":
            txt = t[1]
            if txt.endswith("Decimal::ZERO"):
                return sympy.Integer(0)
            if txt.endswith("Decimal::ONE"):
                return sympy.Integer(1)
            if txt.endswith("Decimal::TWO"):
                return sympy.Integer(2)
            try:
                return sympy.Integer(int(txt))
            except ValueError:
                return leaf(t)
        if h in ("param", "proj", "upvar", "cparam"):
            return leaf(t)
        if h == "cast":
            return go(t[1], depth)
        raise NotAFormula(mir.render(t))
    return go(term, inline_depth)


def return_cases(body):
    """[(guard DNF, term)] for each assignment of the return place (one per match arm / early return)"""
    return body.expanded_cases(0)


def equal(e1, e2):
    d = sympy.simplify(sympy.together(e1 - e2))
    return d == 0
