"""Analysis core over exported MIR bodies.

Primitives (DESIGN.md §2.2):
  P1 calls()            call sites by resolved callee
  P2 term()/prov        provenance expression trees ("access paths") of operands and places
  P3 guard()            DNF over control-dependence edges, atoms resolved through provenance
  P4 dominates()/postdominates()/paths
  P5 who-may tables     (sa/whomay.py)
Nothing here executes barter-rs; it is graph analysis of the compiler's MIR.
"""
from functools import lru_cache

EXIT = -1
_NOT_MUTATORS = ("std::iter::Iterator::", "std::future::", "std::pin::", "std::ops::Try", "std::ops::Deref", "std::task::", "std::fmt::",
                 "core::fmt::", "futures::", "futures_util::", "tokio::", "tokio_stream::", "std::clone::", "std::borrow::", "std::convert::",
                 "std::option::Option::<T>::as_mut", "std::mem::drop", "prettytable::", "std::io::", "std::collections::hash_map::OccupiedEntry",
                 "std::collections::hash_map::VacantEntry", "std::collections::hash_map::Entry")
WORKSPACE = ("barter", "barter_data", "barter_execution", "barter_instrument", "barter_integration")


_PARAMS = None


def _param_alias(defn):
    global _PARAMS
    if _PARAMS is None:
        import json
        import os
        p = os.path.join(os.path.dirname(os.path.dirname(os.path.abspath(__file__))), "rules", "tables", "params.json")
        try:
            with open(p) as fh:
                _PARAMS = json.load(fh)
        except (OSError, ValueError):
            _PARAMS = {}
    return _PARAMS.get(defn)


def callee_path(f):
    """resolved callee: the workspace impl method when the call is statically dispatched into the
    workspace, otherwise the (trait) method as named at the call site"""
    if "indirect" in f:
        return None
    if f.get("res") and f.get("res_krate") in WORKSPACE:
        return f["res"]
    # `std::mem::take(&mut opt)` on an Option is `opt.take()`
    if f.get("def") == "std::mem::take" and f.get("args") and str(f["args"][0]).startswith("std::option::Option<"):
        return "std::option::Option::<T>::take"
    return f["def"]

# callees that are the identity on the access path (reference / smart pointer plumbing)
TRANSPARENT = {
    "std::clone::Clone::clone": 0,
    "std::ops::Deref::deref": 0,
    "std::ops::DerefMut::deref_mut": 0,
    "std::borrow::Borrow::borrow": 0,
    "std::borrow::BorrowMut::borrow_mut": 0,
    "std::convert::AsRef::as_ref": 0,
    "std::convert::AsMut::as_mut": 0,
    "std::option::Option::<T>::as_ref": 0,
    "std::option::Option::<T>::as_mut": 0,
    "std::option::Option::<T>::as_deref": 0,
    "std::option::Option::<&T>::cloned": 0,
    "std::option::Option::<&T>::copied": 0,
    "std::option::Option::<&mut T>::cloned": 0,
    "std::result::Result::<T, E>::as_ref": 0,
    "std::result::Result::<T, E>::as_mut": 0,
    "std::pin::Pin::<Ptr>::new": 0,
    "std::pin::Pin::<Ptr>::as_mut": 0,
    "std::pin::Pin::<Ptr>::new_unchecked": 0,
    "std::pin::Pin::<&'a mut T>::get_unchecked_mut": 0,
    "std::pin::Pin::<&'a mut T>::get_mut": 0,
    "std::convert::identity": 0,
    "std::borrow::ToOwned::to_owned": 0,
    "std::iter::IntoIterator::into_iter": 0,
    # `v.iter()` on a slice / Vec walks the same elements as `for x in &v` (IntoIterator for &Vec): the collection itself
    "core::slice::<impl [T]>::iter": 0,
    "core::slice::<impl [T]>::iter_mut": 0,
    "std::future::IntoFuture::into_future": 0,
    "std::boxed::Box::<T>::new": 0,
    "std::boxed::Box::<T>::pin": 0,
    "std::sync::Arc::<T>::new": 0,
}


def _children(term):
    """direct sub-terms (a term is a tuple headed by a str; other tuples are containers)"""
    for x in term[1:]:
        if isinstance(x, tuple) and x:
            if isinstance(x[0], str):
                # could be a term or a tuple of strings (field names / projection elems)
                if x[0] in _HEADS and _looks_like_term(x):
                    yield x
            else:
                for y in x:
                    if isinstance(y, tuple) and y and isinstance(y[0], str) and y[0] in _HEADS and _looks_like_term(y):
                        yield y


_HEADS = {"never", "mutated", "param", "upvar", "local", "const", "fnitem", "call", "bin", "un", "agg", "proj", "cast", "discr",
          "phi", "cparam", "yielded", "env"}


def _looks_like_term(x):
    h = x[0]
    if h in ("param",):
        return len(x) == 3 and isinstance(x[1], int)
    if h in ("local", "cparam"):
        return len(x) == 2 and isinstance(x[1], int)
    if h in ("env", "yielded"):
        return len(x) == 1
    return True


def is_mentioned(term, pred):
    """does any sub-term satisfy pred?"""
    if pred(term):
        return True
    for c in _children(term):
        if is_mentioned(c, pred):
            return True
    return False


def subterms(term):
    yield term
    for c in _children(term):
        yield from subterms(c)


def mk_proj(base, elems):
    elems = tuple(elems)
    if not elems:
        return base
    if base[0] == "proj":
        return mk_proj(base[1], base[2] + elems)
    # projection into a freshly built aggregate: take the operand
    if base[0] == "agg":
        kind, fields, ops = base[1], base[2], base[3]
        e = elems[0]
        if e.startswith("as:"):
            if kind.startswith("adt:") and kind.endswith("::" + e[3:]):
                return mk_proj(base, elems[1:])
            if kind.startswith("adt:"):
                # payload of a variant the value is known NOT to be (`None.as:Some.0`): an impossible alternative
                return ("never",)
        elif e in fields:
            i = fields.index(e)
            if i < len(ops):
                return mk_proj(ops[i], elems[1:])
    if base[0] == "never":
        return base
    if base[0] == "phi":
        alts = tuple(sorted(set(x for x in (mk_proj(a, elems) for a in base[1]) if x != ("never",)), key=repr))
        if not alts:
            return ("never",)
        if len(alts) == 1:
            return alts[0]
        return ("phi", alts, None)
    return ("proj", base, elems)


def _strip_generics(d):
    out, depth = [], 0
    for ch in d:
        if ch == "<":
            depth += 1
        elif ch == ">":
            depth -= 1
        elif depth == 0:
            out.append(ch)
    r = "".join(out)
    while "::::" in r:
        r = r.replace("::::", "::")
    return r


def short(defpath):
    """`Type::method` (last two path segments, generics stripped); for `<T as Trait>::m` it is `T::m`"""
    d = defpath
    if d.startswith("<"):
        depth = 0
        for i, ch in enumerate(d):
            if ch == "<":
                depth += 1
            elif ch == ">":
                depth -= 1
                if depth == 0:
                    inner, rest = d[1:i], d[i + 1:]
                    # split "Self as Trait" at top level
                    dd, cut = 0, None
                    for j, c2 in enumerate(inner):
                        if c2 == "<":
                            dd += 1
                        elif c2 == ">":
                            dd -= 1
                        elif dd == 0 and inner.startswith(" as ", j):
                            cut = j
                            break
                    selfty = inner[:cut] if cut is not None else inner
                    selfty = _strip_generics(selfty).lstrip("&").replace("mut ", "").strip()
                    seg = [p for p in selfty.split("::") if p]
                    rest_seg = [p for p in _strip_generics(rest).split("::") if p]
                    return "::".join(seg[-1:] + rest_seg)
        return d
    parts = [p for p in _strip_generics(d).split("::") if p]
    return "::".join(parts[-2:])


def render(t):
    h = t[0]
    if h == "param":
        return t[2] or ("arg%d" % t[1])
    if h == "upvar":
        return "^" + t[1]
    if h == "local":
        return "_%d" % t[1]
    if h == "const":
        return t[1]
    if h == "never":
        return "<never>"
    if h == "fnitem":
        return "fn:" + short(t[1])
    if h == "call":
        return "%s(%s)" % (short(t[1]), ", ".join(render(a) for a in t[2]))
    if h == "bin":
        return "%s(%s, %s)" % (t[1], render(t[2]), render(t[3]))
    if h == "un":
        return "%s(%s)" % (t[1], render(t[2]))
    if h == "agg":
        k = t[1]
        if k.startswith("adt:"):
            k = short(k[4:])
        elif k.startswith("closure:"):
            k = "closure:" + short(k[8:])
        if t[2] and len(t[2]) == len(t[3]) and not t[1].startswith("closure"):
            return "%s{%s}" % (k, ", ".join("%s: %s" % (f, render(o)) for f, o in zip(t[2], t[3])))
        return "%s{%s}" % (k, ", ".join(render(o) for o in t[3]))
    if h == "proj":
        return render(t[1]) + "." + ".".join(t[2])
    if h == "cast":
        return "(%s as %s)" % (render(t[1]), t[2])
    if h == "discr":
        return "discr(%s)" % render(t[1])
    if h == "phi":
        return "phi(%s)" % " | ".join(render(a) for a in t[1])
    if h == "cparam":
        return "$%d" % t[1]
    if h == "mutated":
        return "mut[%s](%s)" % (",".join(x.split("::")[-1] for x in t[2]), render(t[1]))
    if h == "yielded":
        return "resume"
    return str(t)


class Body:
    def __init__(self, facts, rec):
        self.facts = facts
        self.rec = rec
        self.defn = rec["def"]
        self.blocks = rec["blocks"]
        self.n = len(self.blocks)
        self.argc = rec["argc"]
        self.locals = rec["locals"]
        self.kind = rec["kind"]
        self._build_cfg()
        self._build_defs()
        self._term_cache = {}
        self._guard_cache = {}
        self._dom = None
        self._pdom = None
        self._cd = None

    # ------------------------------------------------------------------ CFG
    def _build_cfg(self):
        succ = {}
        for b in self.blocks:
            i = b["i"]
            out = []
            t = b["term"]
            if b["cleanup"] or t is None:
                succ[i] = out
                continue
            k = t["t"]
            if k == "switch":
                vals = tuple(v for v, _ in t["targets"])
                for v, tgt in t["targets"]:
                    out.append((("v", v), tgt))
                out.append((("o", vals), t["otherwise"]))
            elif k in ("goto", "drop", "false_edge", "false_unwind", "assert", "yield"):
                out.append((("j",), t["to"]))
            elif k == "call":
                if t["to"] is not None:
                    out.append((("j",), t["to"]))
            elif k == "return":
                out.append((("ret",), EXIT))
            # unreachable / resume / terminate / diverging call: no successors
            succ[i] = out
        self.succ = succ
        # reachable from entry
        seen = {0}
        stack = [0]
        while stack:
            x = stack.pop()
            for _, y in succ.get(x, []):
                if y != EXIT and y not in seen:
                    seen.add(y)
                    stack.append(y)
        self.reachable = seen
        pred = {i: [] for i in list(seen) + [EXIT]}
        for x in seen:
            for lab, y in succ[x]:
                pred.setdefault(y, []).append((lab, x))
        self.pred = pred
        # nodes that can reach EXIT
        can = {EXIT}
        stack = [EXIT]
        while stack:
            y = stack.pop()
            for _, x in pred.get(y, []):
                if x not in can:
                    can.add(x)
                    stack.append(x)
        self.can_exit = can
        # infinite loops (e.g. `loop { select! }` with no return): give loop heads a virtual exit
        self.virtual_exit = []
        if any(x not in can for x in seen):
            for x in sorted(seen):
                t = self.blocks[x]["term"]
                if t and t["t"] == "false_unwind" and x not in can:
                    self.virtual_exit.append(x)
            if self.virtual_exit:
                for x in self.virtual_exit:
                    self.succ[x] = self.succ[x] + [(("vexit",), EXIT)]
                    pred[EXIT].append((("vexit",), x))
                can = {EXIT}
                stack = [EXIT]
                while stack:
                    y = stack.pop()
                    for _, x in pred.get(y, []):
                        if x not in can:
                            can.add(x)
                            stack.append(x)
                self.can_exit = can

    # ------------------------------------------------------------------ dominators
    @staticmethod
    def _idoms(nodes, root, preds_of, succs_of):
        # Cooper-Harvey-Kennedy
        order = []
        seen = set()

        def dfs(r):
            stack = [(r, iter(succs_of(r)))]
            seen.add(r)
            while stack:
                x, it = stack[-1]
                adv = False
                for y in it:
                    if y not in seen and y in nodes:
                        seen.add(y)
                        stack.append((y, iter(succs_of(y))))
                        adv = True
                        break
                if not adv:
                    order.append(x)
                    stack.pop()
        dfs(root)
        rpo = list(reversed(order))
        idx = {x: i for i, x in enumerate(rpo)}
        idom = {root: root}
        changed = True

        def intersect(a, b):
            while a != b:
                while idx[a] > idx[b]:
                    a = idom[a]
                while idx[b] > idx[a]:
                    b = idom[b]
            return a
        while changed:
            changed = False
            for x in rpo[1:]:
                new = None
                for p in preds_of(x):
                    if p in idom and p in idx:
                        new = p if new is None else intersect(p, new)
                if new is not None and idom.get(x) != new:
                    idom[x] = new
                    changed = True
        return idom

    @property
    def dom(self):
        if self._dom is None:
            nodes = set(self.reachable)
            self._dom = self._idoms(nodes, 0,
                                    lambda x: [p for _, p in self.pred.get(x, [])],
                                    lambda x: [y for _, y in self.succ.get(x, []) if y != EXIT])
        return self._dom

    @property
    def pdom(self):
        if self._pdom is None:
            nodes = set(self.can_exit)
            self._pdom = self._idoms(nodes, EXIT,
                                     lambda x: [y for _, y in self.succ.get(x, []) if y in nodes],
                                     lambda x: [p for _, p in self.pred.get(x, []) if p in nodes])
        return self._pdom

    def reach_from(self, a):
        """blocks reachable from block a by one or more edges"""
        seen, stack = set(), [y for _, y in self.succ.get(a, [])]
        while stack:
            x = stack.pop()
            if x in seen or x == EXIT:
                continue
            seen.add(x)
            stack.extend(y for _, y in self.succ.get(x, []))
        return seen

    def dominates(self, a, b):
        """block a dominates block b"""
        d = self.dom
        if b not in d or a not in d:
            return False
        while True:
            if a == b:
                return True
            if d[b] == b:
                return False
            b = d[b]

    def postdominates(self, a, b):
        """block a post-dominates block b (every path from b to the exit passes a)"""
        d = self.pdom
        if b not in d or a not in d:
            return False
        while True:
            if a == b:
                return True
            if d[b] == b:
                return False
            b = d[b]

    # ------------------------------------------------------------------ control dependence
    @property
    def cd(self):
        """cd[b] = list of (a, label): b is control dependent on edge a --label-->"""
        if self._cd is None:
            cd = {}
            pd = self.pdom
            for a in self.reachable:
                if a not in pd:
                    continue
                outs = [(lab, y) for lab, y in self.succ[a] if y in pd]
                if len(outs) < 2:
                    continue
                stop = pd[a]
                for lab, y in outs:
                    if lab == ("vexit",):
                        continue
                    r = y
                    while r != stop and r != EXIT:
                        cd.setdefault(r, []).append((a, lab))
                        if pd[r] == r:
                            break
                        r = pd[r]
            self._cd = cd
        return self._cd

    # ------------------------------------------------------------------ definitions
    def _build_defs(self):
        defs = {}
        partial = {}
        for b in self.blocks:
            if b["cleanup"]:
                continue
            bi = b["i"]
            for si, s in enumerate(b["stmts"]):
                if "lhs" not in s:
                    continue
                lhs = s["lhs"]
                if not lhs["p"]:
                    defs.setdefault(lhs["l"], []).append((bi, si, "stmt", s))
                elif "d" not in lhs["p"][0]:
                    partial.setdefault(lhs["l"], []).append((bi, si, "stmt", s))
            t = b["term"]
            if t and t["t"] == "call":
                d = t["dest"]
                if not d["p"]:
                    defs.setdefault(d["l"], []).append((bi, None, "call", t))
                else:
                    partial.setdefault(d["l"], []).append((bi, None, "call", t))
            if t and t["t"] == "yield":
                d = t["resume_arg"]
                if not d["p"]:
                    defs.setdefault(d["l"], []).append((bi, None, "yield", t))
        self.defs = defs
        self.partial = partial
        # in-place mutation of non-parameter locals through `&mut local` call arguments (x.sort(), x.push(..), ...):
        # invisible to use-def provenance, so recorded here and surfaced as a ("mutated", ..) wrapper by local_term
        inplace = {}
        for b in self.blocks:
            if b["cleanup"]:
                continue
            t = b["term"]
            if not (t and t["t"] == "call" and "def" in t["f"]):
                continue
            if t.get("exp") and t["exp"].startswith("m:"):
                continue
            name = t["f"]["def"]
            if name.startswith(_NOT_MUTATORS):
                continue
            for a in t["args"]:
                q = a.get("m") or a.get("c")
                if q is None or q["p"]:
                    continue
                ds = defs.get(q["l"], [])
                if len(ds) == 1 and ds[0][2] == "stmt":
                    rv = ds[0][3]["rv"]
                    if rv["r"] == "ref" and rv["mut"] and not rv["p"]["p"]:
                        L = rv["p"]["l"]
                        if L > self.argc and defs.get(L):
                            inplace.setdefault(L, set()).add(short(name))
        self.inplace = inplace

    # ------------------------------------------------------------------ provenance
    def param_name(self, l):
        """name under which parameter l is rendered: the name frozen in rules/tables/params.json for this function (same
        arity) - so that renaming a parameter is invisible to the rules - else its current name"""
        al = _param_alias(self.defn)
        if al is not None and len(al) == self.argc and 1 <= l <= len(al):
            return al[l - 1]
        return self.locals[l]["name"]

    def local_term(self, l, depth=0):
        key = l
        if key in self._term_cache:
            return self._term_cache[key]
        if depth > 60:
            return ("local", l)
        self._term_cache[key] = ("local", l)  # cycle breaker
        ds = self.defs.get(l, [])
        if 1 <= l <= self.argc and not ds:
            t = ("param", l, self.param_name(l))
            if self.kind in ("closure", "coroutine") and l == 1:
                t = ("env",)
            elif self.kind == "closure":
                t = ("cparam", l - 1)
            elif self.kind == "coroutine":
                t = ("yielded",)
        elif not ds:
            # assigned only field-wise (partial) or never
            ps = self.partial.get(l, [])
            if ps:
                fields, ops = [], []
                okay = True
                for (bi, si, kind, s) in ps:
                    lhs = s["lhs"] if kind == "stmt" else s["dest"]
                    if len(lhs["p"]) == 1 and "f" in lhs["p"][0]:
                        fields.append(lhs["p"][0]["n"])
                        ops.append(self._def_term((bi, si, kind, s), depth + 1))
                    else:
                        okay = False
                if okay and len(set(fields)) == len(fields):
                    t = ("agg", "fieldwise", tuple(fields), tuple(ops))
                else:
                    t = ("local", l)
            else:
                t = ("local", l)
        elif len(ds) == 1:
            t = self._def_term(ds[0], depth + 1)
        else:
            alts = tuple(sorted(set(x for x in (self._def_term(d, depth + 1) for d in ds) if x != ("never",)), key=repr))
            t = ("never",) if not alts else (alts[0] if len(alts) == 1 else ("phi", alts, l))
        if l in self.inplace and t[0] not in ("param", "env", "cparam", "upvar"):
            t = ("mutated", t, tuple(sorted(self.inplace[l])))
        self._term_cache[key] = t
        return t

    def _def_term(self, d, depth):
        bi, si, kind, s = d
        if kind == "stmt":
            return self.rvalue_term(s["rv"], depth, site=(bi, si))
        if kind == "call":
            return self.call_term(s, bi, depth)
        if kind == "yield":
            return ("yielded",)
        return ("local", -1)

    def place_term(self, p, depth=0):
        base = self.local_term(p["l"], depth)
        elems = []
        for e in p["p"]:
            if "d" in e:
                continue
            if "f" in e:
                if e["a"] == "(upvars)":
                    if base == ("env",) and not elems:
                        base = ("upvar", e["n"])
                        continue
                    # an inlined closure body (sa/inline.py): the environment is the closure aggregate itself
                    if base[0] == "agg" and base[1].startswith("closure:") and not elems and e["f"] < len(base[3]):
                        base = base[3][e["f"]]
                        continue
                elems.append(e["n"])
            elif "v" in e:
                elems.append("as:" + e["v"])
            elif "ix" in e:
                elems.append("[_]")
            elif "cix" in e:
                elems.append("[%s%d]" % ("-" if e["end"] else "", e["cix"]))
            elif "sub" in e:
                elems.append("[..]")
        return mk_proj(base, elems)

    def operand_term(self, o, depth=0):
        if "c" in o:
            return self.place_term(o["c"], depth)
        if "m" in o:
            return self.place_term(o["m"], depth)
        k = o["k"]
        if "fn" in k:
            return ("fnitem", callee_path(k["fn"]))
        if "promoted" in k:
            pt = self.promoted_term(k["promoted"])
            if pt is not None:
                return pt
        if "uneval" in k and "promoted" not in k:
            return ("const", k["uneval"] + ("<%s>" % ",".join(k["uargs"]) if k.get("uargs") else ""), k["ty"])
        if "int" in k:
            return ("const", str(k["int"]), k["ty"])
        return ("const", k.get("s", "?"), k["ty"])

    def promoted_term(self, i):
        ps = self.rec.get("promoted") or []
        if i >= len(ps):
            return None
        key = ("promoted", i)
        if key not in self._term_cache:
            rec = {"def": "%s::promoted[%d]" % (self.defn, i), "blocks": ps[i]["blocks"], "locals": ps[i]["locals"],
                   "argc": 0, "kind": "promoted"}
            pb = Body(self.facts, rec)
            t = pb.return_term()
            if is_mentioned(t, lambda x: x[0] in ("local", "phi")):
                t = None
            self._term_cache[key] = t
        return self._term_cache[key]

    def local_cases(self, l):
        """[(guard DNF, term, block)] for each whole assignment of local l (one per arm)"""
        out = []
        for (bi, si, kind, s) in self.defs.get(l, []):
            out.append((self.guard(bi), self._def_term((bi, si, kind, s), 0), bi))
        return out

    def expanded_cases(self, l, limit=64):
        """local_cases(l) with every phi of a multiply-assigned local inside a case's term split into one case per
        assignment of that local (guards conjoined, contradictory combinations dropped) - `let x = match ..; f(x)`
        and `match .. { a => f(a), b => f(b) }` give the same cases"""
        work = list(self.local_cases(l))
        out = []
        while work:
            g, t, bi = work.pop(0)
            phis = [x for x in subterms(t) if x[0] == "phi" and len(x) > 2 and x[2] is not None]
            if not phis or len(out) + len(work) > limit:
                out.append((g, t, bi))
                continue
            ph = phis[0]
            for g2, t2, bi2 in self.local_cases(ph[2]):
                gg = dnf_and(g, g2)
                if gg:
                    work.append((gg, subst(t, lambda x, ph=ph, t2=t2: t2 if x == ph else None), bi))
        return out

    def expand_term(self, g, term, limit=64):
        """[(guard, term)]: `term` (valid under guard g) with every phi of a multiply-assigned local split into one case per
        assignment of that local - the value-level counterpart of expanded_cases"""
        work = [(g, term)]
        out = []
        while work:
            g1, t = work.pop(0)
            phis = [x for x in subterms(t) if x[0] == "phi" and len(x) > 2 and x[2] is not None]
            if not phis or len(out) + len(work) > limit:
                out.append((g1, t))
                continue
            ph = phis[0]
            for g2, t2, bi2 in self.local_cases(ph[2]):
                gg = dnf_and(g1, g2)
                if gg:
                    work.append((gg, subst(t, lambda x, ph=ph, t2=t2: t2 if x == ph else None)))
        return out

    def rvalue_term(self, rv, depth=0, site=None):
        r = rv["r"]
        if r == "use":
            return self.operand_term(rv["o"], depth)
        if r in ("ref", "rawptr"):
            return self.place_term(rv["p"], depth)
        if r == "cast":
            inner = self.operand_term(rv["o"], depth)
            if rv["kind"].startswith("PointerCoercion") or rv["kind"] in ("Transmute",):
                return inner
            return ("cast", inner, rv["ty"])
        if r == "bin":
            return ("bin", rv["op"], self.operand_term(rv["a"], depth), self.operand_term(rv["b"], depth))
        if r == "un":
            return ("un", rv["op"], self.operand_term(rv["a"], depth))
        if r == "discr":
            return ("discr", self.place_term(rv["p"], depth), rv["adt"], tuple(tuple(x) for x in rv["vars"]))
        if r == "agg":
            k = rv["kind"]
            ops = tuple(self.operand_term(o, depth) for o in rv["ops"])
            if k["k"] == "adt":
                return ("agg", "adt:%s::%s" % (k["adt"], k["variant"]), tuple(k["fields"]), ops)
            if k["k"] == "tuple":
                return ("agg", "tuple", tuple(str(i) for i in range(len(ops))), ops)
            if k["k"] in ("closure", "coroutine", "coroutine_closure"):
                return ("agg", "closure:" + k["def"], (), ops)
            return ("agg", k["k"], (), ops)
        if r == "repeat":
            return ("agg", "repeat", (), (self.operand_term(rv["o"], depth),))
        return ("const", rv.get("s", "?"), "?")

    def callee_of(self, t):
        """resolved callee path of a call terminator (impl method when statically known)"""
        return callee_path(t["f"])

    def call_term(self, t, bi, depth=0):
        f = t["f"]
        args = tuple(self.operand_term(a, depth) for a in t["args"])
        if "indirect" in f:
            return ("call", "<indirect>", (self.operand_term(f["indirect"], depth),) + args, bi)
        d = f["def"]
        if d in TRANSPARENT and args:
            return args[TRANSPARENT[d]]
        callee = callee_path(f)
        if d == "std::boxed::box_assume_init_into_vec_unsafe" and args:
            v = self._vec_macro_contents(args[0], depth)
            if v is not None:
                return v
        inl = self.facts_inline(callee, args, depth)
        if inl is not None:
            return inl
        return ("call", callee, args, bi)

    def _vec_macro_contents(self, box_term, depth):
        """`vec![a, b]` expands to Box::new_uninit + `(*box).value.value.0 = [a, b]` + into_vec: recover [a, b]"""
        for b in self.blocks:
            if b["cleanup"]:
                continue
            for s in b["stmts"]:
                lhs = s.get("lhs")
                if lhs and lhs["p"] and "d" in lhs["p"][0] and s["rv"]["r"] == "agg" and s["rv"]["kind"]["k"] == "array":
                    if self.local_term(lhs["l"], depth + 1) == box_term:
                        ops = tuple(self.operand_term(o, depth + 1) for o in s["rv"]["ops"])
                        return ("agg", "vec", (), ops)
        return None

    def facts_inline(self, callee, args, depth):
        """inline tiny workspace accessors: bodies whose return term is built only from params"""
        if depth > 12:
            return None
        s = accessor_summary(self.facts, callee)
        if s is None:
            return None
        return subst_params(s, args)

    # ------------------------------------------------------------------ sites
    def iter_calls(self):
        for b in self.blocks:
            if b["cleanup"] or b["i"] not in self.reachable:
                continue
            t = b["term"]
            if t and t["t"] == "call":
                yield b["i"], t

    def calls(self, pred):
        """P1: [(block, terminator)] whose resolved callee satisfies pred(callee_path, fnref)"""
        out = []
        for bi, t in self.iter_calls():
            f = t["f"]
            if "indirect" in f:
                continue
            c = callee_path(f)
            if pred(c, f):
                out.append((bi, t))
        return out

    def real_calls(self, skip_macros=True):
        """[(block, terminator, term)] of calls that are neither transparent plumbing nor inlined
        accessors; calls inside macro expansions (tracing, format_args) are skipped by default"""
        out = []
        for bi, t in self.iter_calls():
            if skip_macros and t.get("exp") and t["exp"].startswith("m:"):
                continue
            term = self.call_term(t, bi)
            if term[0] == "call" and term[3] == bi and "indirect" not in t["f"] and term[1] == callee_path(t["f"]):
                out.append((bi, t, term))
            elif "indirect" in t["f"]:
                out.append((bi, t, term))
        return out

    def mut_args(self, t):
        """indices of call arguments that hand the callee a `&mut` reference"""
        out = []
        for i, a in enumerate(t["args"]):
            p = a.get("m") or a.get("c")
            if p is not None and not p["p"]:
                if self.locals[p["l"]]["ty"].startswith("&mut "):
                    out.append(i)
        return out

    def call_args(self, t):
        return [self.operand_term(a) for a in t["args"]]

    def stores(self):
        """assignments through a reference / into a param-rooted place:
        [(block, stmt_index, path_term, value_term, stmt)]"""
        out = []
        for b in self.blocks:
            if b["cleanup"] or b["i"] not in self.reachable:
                continue
            for si, s in enumerate(b["stmts"]):
                if "lhs" not in s:
                    continue
                lhs = s["lhs"]
                if not lhs["p"]:
                    continue
                if not any("d" in e for e in lhs["p"]):
                    # field of a local: only interesting if that local is a param (by-value self)
                    if not (1 <= lhs["l"] <= self.argc):
                        continue
                out.append((b["i"], si, self.place_term(lhs), self.rvalue_term(s["rv"]), s))
        return out

    def return_term(self):
        return self.local_term(0)

    # ------------------------------------------------------------------ guards (P3)
    def edge_atom(self, a, lab):
        """atom for taking edge `lab` out of block a"""
        t = self.blocks[a]["term"]
        if t["t"] != "switch":
            return ("opaque", "non-switch branch at bb%d" % a)
        d = self.operand_term(t["d"])
        exp = t.get("exp")
        if d[0] == "discr":
            _, inner, adt, vars_ = d
            vmap = dict(vars_)
            allv = [n for _, n in vars_]
            if lab[0] == "v":
                names = frozenset([vmap.get(lab[1], lab[1])])
            else:
                listed = set(vmap.get(v, v) for v in lab[1])
                names = frozenset(n for n in allv if n not in listed)
            return ("is", inner, names, adt, exp)
        # boolean / integer switch
        ty = self._operand_ty(t["d"])
        if ty == "bool":
            if lab[0] == "v":
                val = lab[1] != "0"
            else:
                val = "0" in lab[1]  # otherwise of [0] -> true ; otherwise of [1] -> false
                if lab[1] == ("1",):
                    val = False
            return ("bool", d, val, exp)
        if lab[0] == "v":
            return ("eq", d, frozenset([lab[1]]), True, exp)
        return ("eq", d, frozenset(lab[1]), False, exp)

    def _operand_ty(self, o):
        if "c" in o or "m" in o:
            p = o.get("c") or o.get("m")
            if not p["p"]:
                return self.locals[p["l"]]["ty"]
            # field of a tuple local: `match (a.is_zero(), b.is_zero()) { (true, false) => .. }`
            ty = self.locals[p["l"]]["ty"]
            es = [e for e in p["p"] if "d" not in e]
            if len(es) == 1 and "f" in es[0] and ty.startswith("(") and ty.endswith(")"):
                parts, depth, cur = [], 0, ""
                for ch in ty[1:-1]:
                    if ch in "<([":
                        depth += 1
                    elif ch in ">)]":
                        depth -= 1
                    if ch == "," and depth == 0:
                        parts.append(cur.strip())
                        cur = ""
                    else:
                        cur += ch
                if cur.strip():
                    parts.append(cur.strip())
                if es[0]["f"] < len(parts):
                    return parts[es[0]["f"]]
            return "?"
        return o["k"]["ty"]

    def _lift_bool_phi(self, atom, _stack):
        """a branch on a boolean local that is only ever assigned the constants true / false (the expansion of
        `matches!(..)`, `a && b`, `a || b`) is replaced by the guards under which the matching constant was assigned"""
        if atom[0] != "bool" or atom[1][0] != "phi" or len(atom[1]) < 3 or atom[1][2] is None:
            return None
        l = atom[1][2]
        out = set()
        ds = self.defs.get(l, [])
        if not any(k == "stmt" and self.rvalue_term(s["rv"])[0] == "const" for (_b, _s, k, s) in ds):
            return None
        for d in ds:
            bi, si, kind, s = d
            if kind not in ("stmt", "call"):
                return None
            t = self._def_term(d, 0)
            if bi in _stack:
                return None
            if t[0] == "const":
                if t[1] not in ("0", "1", "true", "false"):
                    return None
                if (t[1] in ("1", "true")) == atom[2]:
                    for conj in self.guard(bi, _stack):
                        out.add(conj)
            else:
                # a non-constant arm (`None => true, Some(s) => t > *s`): that arm's guard and the arm's own condition
                inner = ("bool", t, atom[2], None)
                sub = self._lift_bool_phi(inner, _stack) if t[0] == "phi" else None
                for conj in self.guard(bi, _stack):
                    if sub is None:
                        out.add(conj | {inner})
                    else:
                        for c2 in sub:
                            out.add(conj | c2)
        return out

    def _eq_to_is(self, atom):
        """`x == Enum::Variant` (derived PartialEq on a field-less enum) where x is a local assigned literal variants in several
        arms reads as the variant test `x is Variant` - which _lift_is_phi then resolves to the arms' own guards"""
        if atom[0] != "bool" or atom[1][0] != "call" or len(atom[1][2]) != 2:
            return atom
        last = atom[1][1].rsplit("::", 1)[-1]
        if last not in ("eq", "ne") or "PartialEq" not in atom[1][1]:
            return atom
        a, b = atom[1][2]
        for x, v in ((a, b), (b, a)):
            if x[0] == "phi" and len(x) > 2 and x[2] is not None and v[0] == "agg" and v[1].startswith("adt:") and not v[3]:
                alts = set()
                for alt in x[1]:
                    if not (alt[0] == "agg" and alt[1].startswith("adt:") and not alt[3]):
                        return atom
                    alts.add(alt[1].rsplit("::", 1)[-1])
                name = v[1].rsplit("::", 1)[-1]
                positive = (last == "eq") == bool(atom[2])
                names = frozenset([name]) if positive else frozenset(alts - {name})
                return ("is", x, names, v[1][len("adt:"):].rsplit("::", 1)[0], atom[3] if len(atom) > 3 else None)
        return atom

    def _lift_is_phi(self, atom, _stack):
        """a variant test on a local assigned in several arms (`let o = match .. { A => None, B => x.field }; match o {..}`,
        the inlined form of `opt.and_then(..)` / `.map(..)` chains): replaced by the arms' own guards - an arm that assigns
        a literal variant decides the test statically, any other arm contributes `its guard && (its value is V)`"""
        if atom[0] != "is" or atom[1][0] != "phi" or len(atom[1]) < 3 or atom[1][2] is None:
            return None
        l = atom[1][2]
        ds = self.defs.get(l, [])
        if len(ds) < 2:
            return None
        out = set()
        for d in ds:
            bi, si, kind, s = d
            if kind not in ("stmt", "call") or bi in _stack:
                return None
            t = self._def_term(d, 0)
            if t[0] == "agg" and t[1].startswith("adt:"):
                if t[1].rsplit("::", 1)[-1] in atom[2]:
                    for conj in self.guard(bi, _stack):
                        out.add(conj)
                continue
            inner = ("is", t, atom[2], atom[3], atom[4])
            sub = self._lift_is_phi(inner, _stack) if t[0] == "phi" else None
            for conj in self.guard(bi, _stack):
                if sub is None:
                    out.add(conj | {inner})
                else:
                    for c2 in sub:
                        out.add(conj | c2)
        return out

    def guard(self, b, _stack=None):
        """DNF: frozenset of frozensets of atoms under which block b executes (loop back-edges cut)"""
        if b in self._guard_cache:
            return self._guard_cache[b]
        if _stack is None:
            _stack = set()
        if b in _stack:
            return frozenset([frozenset()])
        _stack = _stack | {b}
        deps = self.cd.get(b, [])
        if not deps:
            g = frozenset([frozenset()])
        else:
            disj = set()
            for a, lab in deps:
                if a in _stack and a != b:
                    # dependence through a loop back edge: ignore that route
                    continue
                atom = self.edge_atom(a, lab)
                if a == b:
                    # self-dependence of a loop header
                    continue
                atom = self._eq_to_is(atom)
                lifted = self._lift_bool_phi(atom, _stack)
                if lifted is None:
                    lifted = self._lift_is_phi(atom, _stack)
                for conj in self.guard(a, _stack):
                    if lifted is None:
                        disj.add(conj | {atom})
                    else:
                        for c2 in lifted:
                            disj.add(conj | c2)
            if not disj:
                disj = {frozenset()}
            g = simplify_dnf(disj)
        if len(_stack) == 1:
            self._guard_cache[b] = g
        return g


def simplify_dnf(disj):
    disj = set(disj)
    # absorption
    out = set()
    for c in disj:
        if not any(o < c for o in disj):
            out.add(c)
    # merge complementary:  (X & a) | (X & !a)  ->  X   for bool atoms / complementary `is` sets
    changed = True
    while changed:
        changed = False
        lst = list(out)
        for i in range(len(lst)):
            for j in range(i + 1, len(lst)):
                c1, c2 = lst[i], lst[j]
                d1, d2 = c1 - c2, c2 - c1
                if len(d1) == 1 and len(d2) == 1:
                    a1, a2 = next(iter(d1)), next(iter(d2))
                    m = merge_atoms(a1, a2)
                    if m is not None:
                        out.discard(c1)
                        out.discard(c2)
                        common = c1 & c2
                        out.add(common if m is True else common | {m})
                        changed = True
                        break
            if changed:
                break
        if changed:
            out2 = set()
            for c in out:
                if not any(o < c for o in out):
                    out2.add(c)
            out = out2
    return frozenset(out)


def _consistent(conj):
    seen = {}
    for a in conj:
        if a[0] == "is":
            k = (a[1], a[3])
            seen[k] = (seen[k] & a[2]) if k in seen else a[2]
            if not seen[k]:
                return False
    pol = {}
    for a in conj:
        if a[0] == "bool":
            if pol.setdefault(a[1], a[2]) != a[2]:
                return False
    return True


def _merge_is(conj):
    """intersect `is` atoms that test the same place inside one conjunction; None if the intersection is empty"""
    by = {}
    rest = set()
    for a in conj:
        if a[0] == "is":
            k = (a[1], a[3])
            if k in by:
                by[k] = ("is", a[1], by[k][2] & a[2], a[3], a[4])
                if not by[k][2]:
                    return None
            else:
                by[k] = a
        else:
            rest.add(a)
    return frozenset(rest | set(by.values()))


def dnf_and(g1, g2):
    """conjunction of two DNFs (contradictory conjunctions dropped; may be empty = false)"""
    out = set()
    for c1 in g1:
        for c2 in g2:
            c = _merge_is(c1 | c2)
            if c is not None and _consistent(c):
                out.add(c)
    return simplify_dnf(out) if out else frozenset()


def merge_atoms(a1, a2):
    """a1 | a2 as a single atom, True if tautology, None if not mergeable"""
    if a1[0] == "bool" and a2[0] == "bool" and a1[1] == a2[1] and a1[2] != a2[2]:
        return True
    if a1[0] == "is" and a2[0] == "is" and a1[1] == a2[1] and a1[3] == a2[3]:
        return ("is", a1[1], a1[2] | a2[2], a1[3], a1[4])
    if a1[0] == "eq" and a2[0] == "eq" and a1[1] == a2[1] and a1[2] == a2[2] and a1[3] != a2[3]:
        return True
    return None


def render_atom(a):
    h = a[0]
    if h == "is":
        return "%s is %s" % (render(a[1]), "|".join(sorted(a[2])))
    if h == "bool":
        return ("" if a[2] else "!") + render(a[1])
    if h == "eq":
        return "%s %s {%s}" % (render(a[1]), "in" if a[3] else "not in", ",".join(sorted(a[2])))
    return str(a)


def render_guard(g):
    if g == frozenset([frozenset()]):
        return "true"
    return " || ".join("(" + " && ".join(sorted(render_atom(a) for a in c)) + ")" for c in sorted(g, key=lambda c: sorted(map(render_atom, c))))


# ---------------------------------------------------------------------------------------------
# accessor summaries / substitution
# ---------------------------------------------------------------------------------------------
_ACC = {}
_BODIES = {}


def get_body(facts, defn):
    key = (id(facts), defn)
    if key not in _BODIES:
        rec = facts.bodies.get(defn)
        _BODIES[key] = Body(facts, rec) if rec is not None else None
    return _BODIES[key]


_DERIVED_IDX = {}


def _is_derived(facts, defn):
    key = id(facts)
    if key not in _DERIVED_IDX:
        idx = set()
        for imp in facts.impls:
            if imp.get("derived"):
                for it in imp["items"]:
                    idx.add(it["def"])
        _DERIVED_IDX[key] = idx
    return defn in _DERIVED_IDX[key]


def accessor_summary(facts, callee):
    """return-term of `callee` if it is a pure function of its params built only from
    projections / aggregates / constants (an 'accessor' or constructor); else None"""
    key = (id(facts), callee)
    if key in _ACC:
        return _ACC[key]
    _ACC[key] = None
    rec = facts.bodies.get(callee)
    if rec is None or rec["kind"] not in ("fn", "assoc_fn") or len(rec["blocks"]) > 48:
        return None
    if len(rec["blocks"]) > 12 and not _is_derived(facts, callee):
        # (larger straight-line bodies only for DERIVED constructors - derive_more `Constructor` of a struct with many fields:
        #  `Position::new(..)` is the struct literal)
        return None
    b = get_body(facts, callee)
    # must be loop-free, call-free (except transparent/inlined), store-free
    for bi, t in b.iter_calls():
        f = t["f"]
        if "indirect" in f:
            return None
        c = callee_path(f)
        if f["def"] in TRANSPARENT:
            continue
        if accessor_summary(facts, c) is None:
            return None
    for blk in b.blocks:
        if blk["cleanup"] or blk["i"] not in b.reachable:
            continue
        if blk["term"] and blk["term"]["t"] == "switch":
            return None
    if b.stores():
        return None
    rt = b.return_term()
    bad = is_mentioned(rt, lambda t: t[0] in ("local", "phi", "env", "yielded", "cparam", "upvar", "mutated"))
    if bad:
        return None
    _ACC[key] = rt
    return rt


def subst_params(term, args):
    h = term[0]
    if h == "param":
        i = term[1] - 1
        return args[i] if i < len(args) else term
    if h == "proj":
        return mk_proj(subst_params(term[1], args), term[2])
    if h == "call":
        return ("call", term[1], tuple(subst_params(a, args) for a in term[2]), term[3])
    if h == "bin":
        return ("bin", term[1], subst_params(term[2], args), subst_params(term[3], args))
    if h == "un":
        return ("un", term[1], subst_params(term[2], args))
    if h == "agg":
        return ("agg", term[1], term[2], tuple(subst_params(a, args) for a in term[3]))
    if h == "cast":
        return ("cast", subst_params(term[1], args), term[2])
    if h == "discr":
        return ("discr", subst_params(term[1], args), term[2], term[3])
    if h == "phi":
        return ("phi", tuple(subst_params(a, args) for a in term[1]), None)
    if h == "mutated":
        return ("mutated", subst_params(term[1], args), term[2])
    return term


def subst(term, f):
    """generic bottom-up rewrite: f(term) -> replacement or None"""
    r = f(term)
    if r is not None:
        return r
    h = term[0]
    if h == "proj":
        return mk_proj(subst(term[1], f), term[2])
    if h == "call":
        return ("call", term[1], tuple(subst(a, f) for a in term[2]), term[3])
    if h == "bin":
        return ("bin", term[1], subst(term[2], f), subst(term[3], f))
    if h == "un":
        return ("un", term[1], subst(term[2], f))
    if h == "agg":
        return ("agg", term[1], term[2], tuple(subst(a, f) for a in term[3]))
    if h == "cast":
        return ("cast", subst(term[1], f), term[2])
    if h == "discr":
        return ("discr", subst(term[1], f), term[2], term[3])
    if h == "phi":
        return ("phi", tuple(subst(a, f) for a in term[1]), term[2] if len(term) > 2 else None)
    if h == "mutated":
        return ("mutated", subst(term[1], f), term[2])
    return term


# set by the engine to hand out the idiom-independent (inlined) body of a closure, like ctx.ibody does for functions
CLOSURE_BODY_PROVIDER = None


def closure_body(facts, closure_term):
    """(Body, capture-substitution) for a closure aggregate term"""
    assert closure_term[0] == "agg" and closure_term[1].startswith("closure:")
    d = closure_term[1][len("closure:"):]
    b = CLOSURE_BODY_PROVIDER(facts, d) if CLOSURE_BODY_PROVIDER is not None else get_body(facts, d)
    if b is None:
        return None, {}
    caps = b.rec.get("captures", [])
    m = {}
    for c, op in zip(caps, closure_term[3]):
        m[c["name"]] = op
    return b, m


def in_closure(facts, closure_term, term):
    """rewrite a term computed inside a closure body into the parent's vocabulary"""
    b, m = closure_body(facts, closure_term)

    def f(t):
        if t[0] == "upvar":
            return m.get(t[1])
        return None
    return subst(term, f)
