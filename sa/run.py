import argparse
import os
import sys

sys.path.insert(0, os.path.dirname(os.path.dirname(os.path.abspath(__file__))))
from sa.engine import run_pack  # noqa: E402


def main():
    ap = argparse.ArgumentParser()
    ap.add_argument("prop")
    ap.add_argument("--tier", default=os.environ.get("VERIF_TIER", "quick"), choices=["quick", "thorough"])
    ap.add_argument("--replay", default=None)
    a = ap.parse_args()
    try:
        seed = int(os.environ.get("VERIF_SEED", "0"))
    except ValueError:
        seed = 0
    try:
        rc = run_pack(a.prop, a.tier, a.replay, seed)
    except SystemExit:
        raise
    except BaseException:    # noqa: BLE001 - anything the pack runner did not turn into a verdict is a CHECKER error, never a verdict
        import traceback
        traceback.print_exc()
        print("CHECKER-ERROR property=%s (unexpected exception in the checker itself; exit 2 = no verdict)" % a.prop)
        sys.exit(2)
    sys.exit(rc)


if __name__ == "__main__":
    main()
