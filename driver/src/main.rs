//! barter-facts-driver: a `rustc_private` driver used as RUSTC_WORKSPACE_WRAPPER.
//!
//! For every workspace crate it is invoked on, it dumps (one JSON object per line)
//!   * a `crate` header (with the nonce handed in by the runner),
//!   * `adt` records (variants, fields, visibilities),
//!   * `impl` records (self type, trait, associated items, derived?),
//!   * `body` records: the pre-borrowck, pre-coroutine-transform MIR (`mir_promoted`) of every
//!     body owner, with resolved callees, field names, variant names and expansion info.
//!
//! Nothing is decided here; the Python rule packs in /verif/sa + /verif/rules do that.
#![feature(rustc_private)]
#![allow(clippy::all)]

extern crate rustc_abi;
extern crate rustc_driver;
extern crate rustc_hir;
extern crate rustc_index;
extern crate rustc_interface;
extern crate rustc_middle;
extern crate rustc_session;
extern crate rustc_span;

use rustc_driver::{Callbacks, Compilation};
use rustc_hir::def::DefKind;
use rustc_hir::def_id::{DefId, LocalDefId};
use rustc_interface::interface;
use rustc_middle::mir::{
    self, AggregateKind, BasicBlock, Body, Operand, Place, PlaceElem, Rvalue, StatementKind,
    TerminatorKind,
};
use rustc_middle::ty::print::{with_crate_prefix, with_no_trimmed_paths};
use rustc_middle::ty::{self, Instance, Ty, TyCtxt, TypingEnv};
use rustc_span::{ExpnKind, Span};
use std::fmt::Write as _;

// ---------------------------------------------------------------------------------------------
// tiny JSON helpers
// ---------------------------------------------------------------------------------------------

fn esc(s: &str) -> String {
    let mut o = String::with_capacity(s.len() + 2);
    o.push('"');
    for c in s.chars() {
        match c {
            '"' => o.push_str("\\\""),
            '\\' => o.push_str("\\\\"),
            '\n' => o.push_str("\\n"),
            '\r' => o.push_str("\\r"),
            '\t' => o.push_str("\\t"),
            c if (c as u32) < 0x20 => {
                let _ = write!(o, "\\u{:04x}", c as u32);
            }
            c => o.push(c),
        }
    }
    o.push('"');
    o
}

fn opt_str(s: Option<String>) -> String {
    match s {
        Some(s) => esc(&s),
        None => "null".to_string(),
    }
}

fn arr(items: Vec<String>) -> String {
    let mut o = String::from("[");
    for (i, it) in items.iter().enumerate() {
        if i > 0 {
            o.push(',');
        }
        o.push_str(it);
    }
    o.push(']');
    o
}

// ---------------------------------------------------------------------------------------------

struct Cx<'tcx> {
    tcx: TyCtxt<'tcx>,
    prefix: String,
}

macro_rules! pp {
    ($self:expr, $e:expr) => {
        $self.norm(with_crate_prefix!(with_no_trimmed_paths!($e)))
    };
}

impl<'tcx> Cx<'tcx> {
    fn norm(&self, s: String) -> String {
        if s.contains("crate::") {
            s.replace("crate::", &self.prefix)
        } else {
            s
        }
    }

    fn path(&self, did: DefId) -> String {
        pp!(self, self.tcx.def_path_str(did))
    }

    fn ty_s(&self, ty: Ty<'tcx>) -> String {
        pp!(self, format!("{}", ty))
    }

    /// "file:line" of the user-code call site of a span + expansion descriptor.
    fn span_s(&self, sp: Span) -> (String, Option<String>) {
        let exp = if sp.from_expansion() {
            let data = sp.ctxt().outer_expn_data();
            Some(match data.kind {
                ExpnKind::Macro(_, name) => format!("m:{}", name),
                ExpnKind::Desugaring(k) => format!("d:{:?}", k),
                ExpnKind::AstPass(k) => format!("a:{:?}", k),
                ExpnKind::Root => "root".to_string(),
            })
        } else {
            None
        };
        // outermost macro call site in user code
        let mut cs = sp;
        let mut outer: Option<String> = None;
        while cs.from_expansion() {
            let data = cs.ctxt().outer_expn_data();
            if let ExpnKind::Macro(_, name) = data.kind {
                outer = Some(format!("m:{}", name));
            }
            cs = data.call_site;
        }
        let sm = self.tcx.sess.source_map();
        let lo = sm.lookup_char_pos(cs.lo());
        let file = match &lo.file.name {
            rustc_span::FileName::Real(r) => match r.local_path() {
                Some(p) => p.to_string_lossy().to_string(),
                None => format!("{:?}", lo.file.name),
            },
            other => format!("{:?}", other),
        };
        let s = format!("{}:{}", file, lo.line);
        // prefer the outermost macro name (e.g. tracing::debug) if any macro is involved,
        // but keep desugarings distinguishable
        let exp = match (exp, outer) {
            (Some(e), Some(o)) if e.starts_with("d:") => Some(format!("{}|{}", e, o)),
            (Some(_), Some(o)) => Some(o),
            (e, _) => e,
        };
        (s, exp)
    }

    fn span_full(&self, sp: Span) -> String {
        let mut cs = sp;
        while cs.from_expansion() {
            cs = cs.ctxt().outer_expn_data().call_site;
        }
        let sm = self.tcx.sess.source_map();
        let lo = sm.lookup_char_pos(cs.lo());
        let hi = sm.lookup_char_pos(cs.hi());
        let file = match &lo.file.name {
            rustc_span::FileName::Real(r) => match r.local_path() {
                Some(p) => p.to_string_lossy().to_string(),
                None => format!("{:?}", lo.file.name),
            },
            other => format!("{:?}", other),
        };
        format!("{}:{}-{}", file, lo.line, hi.line)
    }

    fn vis_s(&self, did: DefId) -> String {
        match self.tcx.visibility(did) {
            ty::Visibility::Public => "pub".to_string(),
            ty::Visibility::Restricted(m) => {
                if m.is_crate_root() {
                    "crate".to_string()
                } else {
                    format!("in:{}", self.path(m))
                }
            }
        }
    }

    // ---------------------------------------------------------------- places / operands

    fn place(&self, body: &Body<'tcx>, pl: &Place<'tcx>) -> String {
        let tcx = self.tcx;
        let mut pty = mir::PlaceTy::from_ty(body.local_decls[pl.local].ty);
        let mut elems = Vec::new();
        for elem in pl.projection.iter() {
            let e = match elem {
                PlaceElem::Deref => "{\"d\":1}".to_string(),
                PlaceElem::Field(fidx, _fty) => {
                    let (name, adt) = match pty.ty.kind() {
                        ty::Adt(def, _) => {
                            let v = match pty.variant_index {
                                Some(v) => def.variant(v),
                                None => {
                                    if def.is_enum() {
                                        // should not happen without downcast
                                        def.variant(rustc_abi::VariantIdx::from_u32(0))
                                    } else {
                                        def.non_enum_variant()
                                    }
                                }
                            };
                            let n = v
                                .fields
                                .get(fidx)
                                .map(|f| f.name.to_string())
                                .unwrap_or_else(|| fidx.as_u32().to_string());
                            (n, self.path(def.did()))
                        }
                        ty::Tuple(_) => (fidx.as_u32().to_string(), "(tuple)".to_string()),
                        ty::Closure(did, _) | ty::Coroutine(did, _) | ty::CoroutineClosure(did, _) => {
                            // upvar name
                            let n = did
                                .as_local()
                                .and_then(|l| {
                                    tcx.closure_captures(l)
                                        .get(fidx.as_usize())
                                        .map(|c| pp!(self, c.to_string(tcx)))
                                })
                                .unwrap_or_else(|| fidx.as_u32().to_string());
                            (n, "(upvars)".to_string())
                        }
                        _ => (fidx.as_u32().to_string(), "(?)".to_string()),
                    };
                    format!(
                        "{{\"f\":{},\"n\":{},\"a\":{}}}",
                        fidx.as_u32(),
                        esc(&name),
                        esc(&adt)
                    )
                }
                PlaceElem::Index(l) => format!("{{\"ix\":{}}}", l.as_u32()),
                PlaceElem::ConstantIndex { offset, from_end, .. } => {
                    format!("{{\"cix\":{},\"end\":{}}}", offset, from_end)
                }
                PlaceElem::Subslice { from, to, from_end } => {
                    format!("{{\"sub\":[{},{}],\"end\":{}}}", from, to, from_end)
                }
                PlaceElem::Downcast(sym, vidx) => {
                    let name = match sym {
                        Some(s) => s.to_string(),
                        None => match pty.ty.kind() {
                            ty::Adt(def, _) => def.variant(vidx).name.to_string(),
                            _ => vidx.as_u32().to_string(),
                        },
                    };
                    format!("{{\"v\":{},\"vi\":{}}}", esc(&name), vidx.as_u32())
                }
                PlaceElem::OpaqueCast(_) => "{\"oc\":1}".to_string(),
                PlaceElem::UnwrapUnsafeBinder(_) => "{\"ub\":1}".to_string(),
            };
            elems.push(e);
            pty = pty.projection_ty(tcx, elem);
        }
        format!("{{\"l\":{},\"p\":{}}}", pl.local.as_u32(), arr(elems))
    }

    fn typing_env(&self, body: &Body<'tcx>) -> TypingEnv<'tcx> {
        TypingEnv::post_analysis(self.tcx, body.source.def_id())
    }

    fn constant(&self, body: &Body<'tcx>, c: &mir::ConstOperand<'tcx>) -> String {
        let tcx = self.tcx;
        let ty = c.const_.ty();
        let mut o = String::from("{");
        let _ = write!(o, "\"ty\":{}", esc(&self.ty_s(ty)));
        match ty.kind() {
            ty::FnDef(did, args) => {
                let _ = write!(o, ",\"fn\":{}", self.fn_ref(body, *did, args));
            }
            _ => {
                match c.const_ {
                    mir::Const::Unevaluated(uv, _) => {
                        let _ = write!(o, ",\"uneval\":{}", esc(&self.path(uv.def)));
                        let a: Vec<String> =
                            uv.args.iter().map(|a| esc(&pp!(self, format!("{}", a)))).collect();
                        let _ = write!(o, ",\"uargs\":{}", arr(a));
                        if let Some(p) = uv.promoted {
                            let _ = write!(o, ",\"promoted\":{}", p.as_u32());
                        }
                    }
                    _ => {}
                }
                if ty.is_integral() || ty.is_bool() || ty.is_char() {
                    if let Some(si) = c.const_.try_eval_scalar_int(tcx, self.typing_env(body)) {
                        let size = si.size();
                        let bits = si.to_bits(size);
                        let v: i128 = if ty.is_signed() {
                            size.sign_extend(bits) as i128
                        } else {
                            bits as i128
                        };
                        let _ = write!(o, ",\"int\":{}", v);
                    }
                }
                let d = pp!(self, format!("{}", c.const_));
                let d = if d.len() > 200 { format!("{}…", &d[..d.char_indices().nth(200).map(|x| x.0).unwrap_or(d.len())]) } else { d };
                let _ = write!(o, ",\"s\":{}", esc(&d));
            }
        }
        o.push('}');
        o
    }

    fn fn_ref(&self, body: &Body<'tcx>, did: DefId, args: ty::GenericArgsRef<'tcx>) -> String {
        let tcx = self.tcx;
        let mut o = String::from("{");
        let _ = write!(o, "\"def\":{}", esc(&self.path(did)));
        let a: Vec<String> = args
            .iter()
            .map(|a| esc(&pp!(self, format!("{}", a))))
            .collect();
        let _ = write!(o, ",\"args\":{}", arr(a));
        let _ = write!(o, ",\"krate\":{}", esc(tcx.crate_name(did.krate).as_str()));
        // name + container
        let _ = write!(o, ",\"name\":{}", esc(tcx.item_name(did).as_str()));
        if let Some(assoc) = tcx.opt_associated_item(did) {
            match assoc.container {
                ty::AssocContainer::Trait => {
                    let tr = tcx.parent(did);
                    let _ = write!(o, ",\"trait\":{}", esc(&self.path(tr)));
                    if args.len() > 0 {
                        if let Some(st) = args.get(0).and_then(|a| a.as_type()) {
                            let _ = write!(o, ",\"self\":{}", esc(&self.ty_s(st)));
                        }
                    }
                }
                _ => {
                    let imp = tcx.parent(did);
                    if matches!(tcx.def_kind(imp), DefKind::Impl { .. }) {
                        let st = tcx.type_of(imp).instantiate_identity().skip_norm_wip();
                        let _ = write!(o, ",\"impl_self\":{}", esc(&self.ty_s(st)));
                        if let Some(tr) = tcx.impl_opt_trait_ref(imp) {
                            let tr = tr.instantiate_identity().skip_norm_wip();
                            let _ = write!(o, ",\"impl_trait\":{}", esc(&self.path(tr.def_id)));
                        }
                    }
                }
            }
        }
        // resolution
        if matches!(tcx.def_kind(did), DefKind::Fn | DefKind::AssocFn) {
            let env = self.typing_env(body);
            let res = std::panic::catch_unwind(std::panic::AssertUnwindSafe(|| {
                Instance::try_resolve(tcx, env, did, args)
            }));
            if let Ok(Ok(Some(inst))) = res {
                let rd = inst.def_id();
                if rd != did {
                    let _ = write!(o, ",\"res\":{}", esc(&self.path(rd)));
                    let _ = write!(o, ",\"res_krate\":{}", esc(tcx.crate_name(rd.krate).as_str()));
                    if let Some(assoc) = tcx.opt_associated_item(rd) {
                        let _ = assoc;
                        let imp = tcx.parent(rd);
                        if matches!(tcx.def_kind(imp), DefKind::Impl { .. }) {
                            let st = tcx.type_of(imp).instantiate_identity().skip_norm_wip();
                            let _ = write!(o, ",\"res_self\":{}", esc(&self.ty_s(st)));
                        }
                    }
                }
                match inst.def {
                    ty::InstanceKind::Item(_) => {}
                    ref other => {
                        let k = format!("{:?}", other);
                        let k = k.split('(').next().unwrap_or("").to_string();
                        let _ = write!(o, ",\"res_kind\":{}", esc(&k));
                    }
                }
            }
        }
        o.push('}');
        o
    }

    fn operand(&self, body: &Body<'tcx>, op: &Operand<'tcx>) -> String {
        match op {
            Operand::Copy(p) => format!("{{\"c\":{}}}", self.place(body, p)),
            Operand::Move(p) => format!("{{\"m\":{}}}", self.place(body, p)),
            Operand::Constant(c) => format!("{{\"k\":{}}}", self.constant(body, c)),
            #[allow(unreachable_patterns)]
            _ => "{\"k\":{\"ty\":\"?\",\"s\":\"runtime-checks\"}}".to_string(),
        }
    }

    fn adt_variants(&self, def: ty::AdtDef<'tcx>) -> String {
        // discriminant value -> variant name
        let mut items = Vec::new();
        if def.is_enum() {
            for (vidx, discr) in def.discriminants(self.tcx) {
                items.push(format!(
                    "[{},{}]",
                    esc(&discr.val.to_string()),
                    esc(def.variant(vidx).name.as_str())
                ));
            }
        }
        arr(items)
    }

    fn rvalue(&self, body: &Body<'tcx>, rv: &Rvalue<'tcx>) -> String {
        let tcx = self.tcx;
        match rv {
            Rvalue::Use(op, ..) => format!("{{\"r\":\"use\",\"o\":{}}}", self.operand(body, op)),
            Rvalue::Ref(_, bk, p) => {
                let m = matches!(bk, mir::BorrowKind::Mut { .. });
                let fake = matches!(bk, mir::BorrowKind::Fake(_));
                format!(
                    "{{\"r\":\"ref\",\"mut\":{},\"fake\":{},\"p\":{}}}",
                    m,
                    fake,
                    self.place(body, p)
                )
            }
            Rvalue::RawPtr(_, p) => format!("{{\"r\":\"rawptr\",\"p\":{}}}", self.place(body, p)),
            Rvalue::CopyForDeref(p) => {
                format!("{{\"r\":\"use\",\"o\":{{\"c\":{}}}}}", self.place(body, p))
            }
            Rvalue::Cast(kind, op, ty) => format!(
                "{{\"r\":\"cast\",\"kind\":{},\"o\":{},\"ty\":{}}}",
                esc(&format!("{:?}", kind)),
                self.operand(body, op),
                esc(&self.ty_s(*ty))
            ),
            Rvalue::BinaryOp(op, ab) => format!(
                "{{\"r\":\"bin\",\"op\":{},\"a\":{},\"b\":{}}}",
                esc(&format!("{:?}", op)),
                self.operand(body, &ab.0),
                self.operand(body, &ab.1)
            ),
            Rvalue::UnaryOp(op, a) => format!(
                "{{\"r\":\"un\",\"op\":{},\"a\":{}}}",
                esc(&format!("{:?}", op)),
                self.operand(body, a)
            ),
            Rvalue::Discriminant(p) => {
                let pty = p.ty(&body.local_decls, tcx).ty;
                let (adt, vars) = match pty.kind() {
                    ty::Adt(def, _) => (self.path(def.did()), self.adt_variants(*def)),
                    _ => (self.ty_s(pty), "[]".to_string()),
                };
                format!(
                    "{{\"r\":\"discr\",\"p\":{},\"adt\":{},\"vars\":{}}}",
                    self.place(body, p),
                    esc(&adt),
                    vars
                )
            }
            Rvalue::Aggregate(kind, ops) => {
                let k = match &**kind {
                    AggregateKind::Array(_) => "{\"k\":\"array\"}".to_string(),
                    AggregateKind::Tuple => "{\"k\":\"tuple\"}".to_string(),
                    AggregateKind::Adt(did, vidx, _args, _, active) => {
                        let def = tcx.adt_def(*did);
                        let v = def.variant(*vidx);
                        let fields: Vec<String> = match active {
                            Some(f) => vec![esc(v.fields[*f].name.as_str())],
                            None => v.fields.iter().map(|f| esc(f.name.as_str())).collect(),
                        };
                        format!(
                            "{{\"k\":\"adt\",\"adt\":{},\"variant\":{},\"fields\":{}}}",
                            esc(&self.path(*did)),
                            esc(v.name.as_str()),
                            arr(fields)
                        )
                    }
                    AggregateKind::Closure(did, _) => {
                        format!("{{\"k\":\"closure\",\"def\":{}}}", esc(&self.path(*did)))
                    }
                    AggregateKind::Coroutine(did, _) => {
                        format!("{{\"k\":\"coroutine\",\"def\":{}}}", esc(&self.path(*did)))
                    }
                    AggregateKind::CoroutineClosure(did, _) => {
                        format!("{{\"k\":\"coroutine_closure\",\"def\":{}}}", esc(&self.path(*did)))
                    }
                    AggregateKind::RawPtr(..) => "{\"k\":\"rawptr\"}".to_string(),
                };
                let os: Vec<String> = ops.iter().map(|o| self.operand(body, o)).collect();
                format!("{{\"r\":\"agg\",\"kind\":{},\"ops\":{}}}", k, arr(os))
            }
            Rvalue::Repeat(op, _) => {
                format!("{{\"r\":\"repeat\",\"o\":{}}}", self.operand(body, op))
            }
            other => format!("{{\"r\":\"other\",\"s\":{}}}", esc(&format!("{:?}", other))),
        }
    }

    fn bb(b: BasicBlock) -> u32 {
        b.as_u32()
    }

    fn terminator(&self, body: &Body<'tcx>, term: &mir::Terminator<'tcx>) -> String {
        let (sp, exp) = self.span_s(term.source_info.span);
        let common = format!("\"sp\":{},\"exp\":{}", esc(&sp), opt_str(exp));
        match &term.kind {
            TerminatorKind::Goto { target } => {
                format!("{{\"t\":\"goto\",\"to\":{},{}}}", Self::bb(*target), common)
            }
            TerminatorKind::SwitchInt { discr, targets } => {
                let mut ts = Vec::new();
                for (v, b) in targets.iter() {
                    ts.push(format!("[{},{}]", esc(&v.to_string()), Self::bb(b)));
                }
                format!(
                    "{{\"t\":\"switch\",\"d\":{},\"targets\":{},\"otherwise\":{},{}}}",
                    self.operand(body, discr),
                    arr(ts),
                    Self::bb(targets.otherwise()),
                    common
                )
            }
            TerminatorKind::Return => format!("{{\"t\":\"return\",{}}}", common),
            TerminatorKind::Unreachable => format!("{{\"t\":\"unreachable\",{}}}", common),
            TerminatorKind::UnwindResume => format!("{{\"t\":\"resume\",{}}}", common),
            TerminatorKind::UnwindTerminate(_) => format!("{{\"t\":\"terminate\",{}}}", common),
            TerminatorKind::Drop { place, target, .. } => format!(
                "{{\"t\":\"drop\",\"p\":{},\"to\":{},{}}}",
                self.place(body, place),
                Self::bb(*target),
                common
            ),
            TerminatorKind::Call { func, args, destination, target, fn_span, .. } => {
                let f = match func {
                    Operand::Constant(c) => match c.const_.ty().kind() {
                        ty::FnDef(did, ga) => self.fn_ref(body, *did, ga),
                        _ => format!("{{\"indirect\":{}}}", self.operand(body, func)),
                    },
                    _ => {
                        let fty = func.ty(&body.local_decls, self.tcx);
                        format!(
                            "{{\"indirect\":{},\"fty\":{}}}",
                            self.operand(body, func),
                            esc(&self.ty_s(fty))
                        )
                    }
                };
                let a: Vec<String> = args.iter().map(|a| self.operand(body, &a.node)).collect();
                let (fsp, _) = self.span_s(*fn_span);
                format!(
                    "{{\"t\":\"call\",\"f\":{},\"args\":{},\"dest\":{},\"to\":{},\"fsp\":{},{}}}",
                    f,
                    arr(a),
                    self.place(body, destination),
                    match target {
                        Some(t) => Self::bb(*t).to_string(),
                        None => "null".to_string(),
                    },
                    esc(&fsp),
                    common
                )
            }
            TerminatorKind::TailCall { .. } => format!("{{\"t\":\"tailcall\",{}}}", common),
            TerminatorKind::Assert { cond, expected, target, msg, .. } => {
                let m = format!("{:?}", msg);
                let m = m.split('(').next().unwrap_or("").to_string();
                format!(
                    "{{\"t\":\"assert\",\"cond\":{},\"expected\":{},\"to\":{},\"msg\":{},{}}}",
                    self.operand(body, cond),
                    expected,
                    Self::bb(*target),
                    esc(&m),
                    common
                )
            }
            TerminatorKind::Yield { value, resume, resume_arg, drop } => format!(
                "{{\"t\":\"yield\",\"v\":{},\"to\":{},\"resume_arg\":{},\"drop\":{},{}}}",
                self.operand(body, value),
                Self::bb(*resume),
                self.place(body, resume_arg),
                match drop {
                    Some(d) => Self::bb(*d).to_string(),
                    None => "null".to_string(),
                },
                common
            ),
            TerminatorKind::CoroutineDrop => format!("{{\"t\":\"coroutine_drop\",{}}}", common),
            TerminatorKind::FalseEdge { real_target, imaginary_target } => format!(
                "{{\"t\":\"false_edge\",\"to\":{},\"imaginary\":{},{}}}",
                Self::bb(*real_target),
                Self::bb(*imaginary_target),
                common
            ),
            TerminatorKind::FalseUnwind { real_target, .. } => {
                format!("{{\"t\":\"false_unwind\",\"to\":{},{}}}", Self::bb(*real_target), common)
            }
            TerminatorKind::InlineAsm { .. } => format!("{{\"t\":\"asm\",{}}}", common),
        }
    }

    fn blocks_json(&self, body: &Body<'tcx>) -> String {
        let mut blocks = Vec::new();
        for (bbi, data) in body.basic_blocks.iter_enumerated() {
            let mut stmts = Vec::new();
            for st in &data.statements {
                match &st.kind {
                    StatementKind::Assign(b) => {
                        let (lhs, rv) = &**b;
                        let (sp, exp) = self.span_s(st.source_info.span);
                        stmts.push(format!(
                            "{{\"lhs\":{},\"rv\":{},\"sp\":{},\"exp\":{}}}",
                            self.place(body, lhs),
                            self.rvalue(body, rv),
                            esc(&sp),
                            opt_str(exp)
                        ));
                    }
                    StatementKind::SetDiscriminant { place, variant_index } => {
                        let (sp, exp) = self.span_s(st.source_info.span);
                        stmts.push(format!(
                            "{{\"setdiscr\":{},\"vi\":{},\"sp\":{},\"exp\":{}}}",
                            self.place(body, place),
                            variant_index.as_u32(),
                            esc(&sp),
                            opt_str(exp)
                        ));
                    }
                    _ => {}
                }
            }
            let term = match &data.terminator {
                Some(t) => self.terminator(body, t),
                None => "null".to_string(),
            };
            blocks.push(format!(
                "{{\"i\":{},\"cleanup\":{},\"stmts\":{},\"term\":{}}}",
                bbi.as_u32(),
                data.is_cleanup,
                arr(stmts),
                term
            ));
        }
        arr(blocks)
    }

    fn body_record(
        &self,
        ldid: LocalDefId,
        body: &Body<'tcx>,
        mir_kind: &str,
        promoted: Option<&rustc_index::IndexVec<mir::Promoted, Body<'tcx>>>,
    ) -> String {
        let tcx = self.tcx;
        let did = ldid.to_def_id();
        let kind = tcx.def_kind(did);
        let kind_s = match kind {
            DefKind::Fn => "fn",
            DefKind::AssocFn => "assoc_fn",
            DefKind::Closure => {
                if tcx.is_coroutine(did) {
                    "coroutine"
                } else {
                    "closure"
                }
            }
            DefKind::Const { .. } => "const",
            DefKind::AssocConst { .. } => "assoc_const",
            DefKind::Static { .. } => "static",
            DefKind::AnonConst => "anon_const",
            DefKind::InlineConst => "inline_const",
            _ => "other",
        };
        let mut o = String::with_capacity(4096);
        o.push_str("{\"k\":\"body\"");
        let _ = write!(o, ",\"def\":{}", esc(&self.path(did)));
        let _ = write!(o, ",\"kind\":{}", esc(kind_s));
        let _ = write!(o, ",\"mir_kind\":{}", esc(mir_kind));
        let _ = write!(o, ",\"name\":{}", opt_str(tcx.opt_item_name(did).map(|s| s.to_string())));
        // parent (for closures: enclosing body; for assoc: the impl)
        let parent = tcx.opt_parent(did);
        let _ = write!(o, ",\"parent\":{}", opt_str(parent.map(|p| self.path(p))));
        if matches!(kind, DefKind::Fn | DefKind::AssocFn) {
            let _ = write!(o, ",\"vis\":{}", esc(&self.vis_s(did)));
        }
        if let Some(assoc) = tcx.opt_associated_item(did) {
            let imp = tcx.parent(did);
            match assoc.container {
                ty::AssocContainer::Trait => {
                    let _ = write!(o, ",\"in_trait\":{}", esc(&self.path(imp)));
                }
                _ => {
                    let st = tcx.type_of(imp).instantiate_identity().skip_norm_wip();
                    let _ = write!(o, ",\"impl_self\":{}", esc(&self.ty_s(st)));
                    if let ty::Adt(ad, _) = st.kind() {
                        let _ = write!(o, ",\"impl_self_adt\":{}", esc(&self.path(ad.did())));
                    }
                    if let Some(tr) = tcx.impl_opt_trait_ref(imp) {
                        let tr = tr.instantiate_identity().skip_norm_wip();
                        let _ = write!(o, ",\"impl_trait\":{}", esc(&self.path(tr.def_id)));
                        let _ = write!(
                            o,
                            ",\"impl_trait_ref\":{}",
                            esc(&pp!(self, format!("{}", tr)))
                        );
                    }
                }
            }
        }
        let in_test = self.in_cfg_test(did);
        let _ = write!(o, ",\"test\":{}", in_test);
        let _ = write!(o, ",\"span\":{}", esc(&self.span_full(body.span)));
        let _ = write!(o, ",\"argc\":{}", body.arg_count);
        // captures
        if matches!(kind, DefKind::Closure) {
            let caps: Vec<String> = tcx
                .closure_captures(ldid)
                .iter()
                .map(|c| {
                    let by_ref = matches!(c.info.capture_kind, ty::UpvarCapture::ByRef(_));
                    format!(
                        "{{\"name\":{},\"by_ref\":{},\"var\":{}}}",
                        esc(&pp!(self, c.to_string(tcx))),
                        by_ref,
                        esc(c.var_ident.name.as_str())
                    )
                })
                .collect();
            let _ = write!(o, ",\"captures\":{}", arr(caps));
        }
        // locals
        let mut names: Vec<Option<String>> = vec![None; body.local_decls.len()];
        let mut dbg = Vec::new();
        for vdi in &body.var_debug_info {
            match &vdi.value {
                mir::VarDebugInfoContents::Place(p) => {
                    if p.projection.is_empty() {
                        names[p.local.as_usize()] = Some(vdi.name.to_string());
                    }
                    dbg.push(format!(
                        "{{\"name\":{},\"p\":{}}}",
                        esc(vdi.name.as_str()),
                        self.place(body, p)
                    ));
                }
                _ => {}
            }
        }
        let locals: Vec<String> = body
            .local_decls
            .iter_enumerated()
            .map(|(l, d)| {
                format!(
                    "{{\"ty\":{},\"name\":{},\"user\":{}}}",
                    esc(&self.ty_s(d.ty)),
                    opt_str(names[l.as_usize()].clone()),
                    d.is_user_variable()
                )
            })
            .collect();
        let _ = write!(o, ",\"locals\":{}", arr(locals));
        let _ = write!(o, ",\"dbg\":{}", arr(dbg));
        let _ = write!(o, ",\"blocks\":{}", self.blocks_json(body));
        if let Some(proms) = promoted {
            let mut ps = Vec::new();
            for pb in proms.iter() {
                let locals: Vec<String> = pb
                    .local_decls
                    .iter()
                    .map(|d| format!("{{\"ty\":{},\"name\":null,\"user\":false}}", esc(&self.ty_s(d.ty))))
                    .collect();
                ps.push(format!(
                    "{{\"locals\":{},\"blocks\":{}}}",
                    arr(locals),
                    self.blocks_json(pb)
                ));
            }
            let _ = write!(o, ",\"promoted\":{}", arr(ps));
        }

        o.push('}');
        o
    }

    fn in_cfg_test(&self, did: DefId) -> bool {
        // heuristically: any ancestor module named `tests`/`test` … we instead rely on the crate
        // being compiled without --test for lib targets; for --all-targets extraction the header
        // carries `is_test_harness`.
        let p = self.path(did);
        p.contains("::tests::") || p.contains("::test::")
    }

    fn adt_record(&self, did: DefId) -> String {
        let tcx = self.tcx;
        let def = tcx.adt_def(did);
        let kind = if def.is_enum() {
            "enum"
        } else if def.is_union() {
            "union"
        } else {
            "struct"
        };
        let mut vars = Vec::new();
        let discrs: Vec<(rustc_abi::VariantIdx, String)> = if def.is_enum() {
            def.discriminants(tcx).map(|(v, d)| (v, d.val.to_string())).collect()
        } else {
            vec![]
        };
        for (vidx, v) in def.variants().iter_enumerated() {
            let fields: Vec<String> = v
                .fields
                .iter()
                .map(|f| {
                    let fty = tcx.type_of(f.did).instantiate_identity().skip_norm_wip();
                    format!(
                        "{{\"name\":{},\"ty\":{},\"vis\":{}}}",
                        esc(f.name.as_str()),
                        esc(&self.ty_s(fty)),
                        esc(&self.vis_s(f.did))
                    )
                })
                .collect();
            let d = discrs.iter().find(|(i, _)| *i == vidx).map(|(_, d)| d.clone());
            vars.push(format!(
                "{{\"name\":{},\"idx\":{},\"discr\":{},\"fields\":{}}}",
                esc(v.name.as_str()),
                vidx.as_u32(),
                opt_str(d),
                arr(fields)
            ));
        }
        format!(
            "{{\"k\":\"adt\",\"def\":{},\"kind\":{},\"vis\":{},\"variants\":{}}}",
            esc(&self.path(did)),
            esc(kind),
            esc(&self.vis_s(did)),
            arr(vars)
        )
    }

    fn impl_record(&self, did: DefId) -> String {
        let tcx = self.tcx;
        let st = tcx.type_of(did).instantiate_identity().skip_norm_wip();
        let tr = tcx.impl_opt_trait_ref(did).map(|t| t.instantiate_identity().skip_norm_wip());
        let derived = tcx.is_automatically_derived(did);
        let mut items = Vec::new();
        for it in tcx.associated_items(did).in_definition_order() {
            let kind = format!("{:?}", it.kind);
            let kind = kind.split(|c| c == '{' || c == '(' || c == ' ').next().unwrap_or("").to_string();
            items.push(format!(
                "{{\"name\":{},\"def\":{},\"kind\":{}}}",
                esc(it.opt_name().map(|n| n.to_string()).unwrap_or_else(|| "<rpitit>".to_string()).as_str()),
                esc(&self.path(it.def_id)),
                esc(&kind)
            ));
        }
        let (sp, _) = self.span_s(tcx.def_span(did));
        format!(
            "{{\"k\":\"impl\",\"self_ty\":{},\"self_adt\":{},\"trait\":{},\"trait_ref\":{},\"derived\":{},\"sp\":{},\"items\":{}}}",
            esc(&self.ty_s(st)),
            opt_str(match st.kind() {
                ty::Adt(ad, _) => Some(self.path(ad.did())),
                _ => None,
            }),
            opt_str(tr.map(|t| self.path(t.def_id))),
            opt_str(tr.map(|t| pp!(self, format!("{}", t)))),
            derived,
            esc(&sp),
            arr(items)
        )
    }
}

struct FactsCallbacks;

impl Callbacks for FactsCallbacks {
    fn config(&mut self, _config: &mut interface::Config) {}

    fn after_expansion<'tcx>(
        &mut self,
        _compiler: &interface::Compiler,
        tcx: TyCtxt<'tcx>,
    ) -> Compilation {
        let out_dir = match std::env::var("VERIF_FACTS_DIR") {
            Ok(d) => d,
            Err(_) => return Compilation::Continue,
        };
        let crate_name = tcx.crate_name(rustc_hir::def_id::LOCAL_CRATE).to_string();
        if crate_name == "build_script_build" || crate_name == "barter_macro" {
            return Compilation::Continue;
        }
        let nonce = std::env::var("VERIF_NONCE").unwrap_or_default();
        let cx = Cx { tcx, prefix: format!("{}::", crate_name) };
        let mut out = String::with_capacity(1 << 24);
        let is_test = tcx.sess.opts.test;
        let crate_types: Vec<String> =
            tcx.crate_types().iter().map(|c| esc(&format!("{:?}", c))).collect();
        let _ = writeln!(
            out,
            "{{\"k\":\"crate\",\"name\":{},\"nonce\":{},\"test_harness\":{},\"crate_types\":{},\"mir\":\"promoted\"}}",
            esc(&crate_name),
            esc(&nonce),
            is_test,
            arr(crate_types)
        );
        // items
        let mut n_adt = 0usize;
        let mut n_impl = 0usize;
        for id in tcx.hir_free_items() {
            let did = id.owner_id.to_def_id();
            match tcx.def_kind(did) {
                DefKind::Struct | DefKind::Enum | DefKind::Union => {
                    let _ = writeln!(out, "{}", cx.adt_record(did));
                    n_adt += 1;
                }
                DefKind::Impl { .. } => {
                    let _ = writeln!(out, "{}", cx.impl_record(did));
                    n_impl += 1;
                }
                _ => {}
            }
        }
        // bodies
        let mut n_body = 0usize;
        let mut n_stolen = 0usize;
        for ldid in tcx.hir_body_owners() {
            let did = ldid.to_def_id();
            let kind = tcx.def_kind(did);
            match kind {
                DefKind::Fn
                | DefKind::AssocFn
                | DefKind::Closure
                | DefKind::Const { .. }
                | DefKind::AssocConst { .. }
                | DefKind::Static { .. } => {}
                _ => continue,
            }
            let (steal, promoted) = tcx.mir_promoted(ldid);
            if steal.is_stolen() {
                n_stolen += 1;
                // fall back to the optimized body for fns/closures
                if matches!(kind, DefKind::Fn | DefKind::AssocFn | DefKind::Closure) {
                    let body = tcx.optimized_mir(did);
                    let _ = writeln!(out, "{}", cx.body_record(ldid, body, "optimized", None));
                    n_body += 1;
                }
                continue;
            }
            let body = steal.borrow();
            let proms = if promoted.is_stolen() { None } else { Some(promoted.borrow()) };
            let _ = writeln!(
                out,
                "{}",
                cx.body_record(ldid, &body, "promoted", proms.as_ref().map(|p| &**p))
            );
            n_body += 1;
        }
        let _ = writeln!(
            out,
            "{{\"k\":\"end\",\"name\":{},\"adts\":{},\"impls\":{},\"bodies\":{},\"stolen\":{}}}",
            esc(&crate_name),
            n_adt,
            n_impl,
            n_body,
            n_stolen
        );
        let kind_tag = if is_test { "test" } else { "lib" };
        let stable_id = format!("{:x}", tcx.stable_crate_id(rustc_hir::def_id::LOCAL_CRATE).as_u64());
        let file = format!("{}/{}-{}-{}.jsonl", out_dir, crate_name, kind_tag, stable_id);
        if let Err(e) = std::fs::write(&file, out) {
            eprintln!("barter-facts-driver: cannot write {}: {}", file, e);
            std::process::exit(101);
        }
        Compilation::Continue
    }
}

fn main() {
    // RUSTC_WORKSPACE_WRAPPER: argv = [driver, rustc, args...]
    let mut args: Vec<String> = std::env::args().collect();
    if args.len() >= 2 && (args[1].ends_with("rustc") || args[1].contains("/rustc")) {
        args.remove(1);
    }
    let mut cb = FactsCallbacks;
    rustc_driver::run_compiler(&args, &mut cb);
}
