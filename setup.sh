#!/bin/sh
# MANIFEST.setup_cmd: build the driver and warm the dependency cache (offline).
set -e
here=$(cd "$(dirname "$0")" && pwd)
cd "$here"
export CARGO_NET_OFFLINE=true
(cd driver && cargo build --release --offline)
python3-vt sa/facts.py
python3-vt -c "import sys; sys.path.insert(0, '.'); from sa import fixtures; r = fixtures.ensure(); print('controls', sum(r.values()), '/', len(r))"
